#!/usr/bin/env python3
"""Regenerate /verif/MANIFEST.json from checks/*.json and tools/not_applicable.json."""
import json, glob, os
root = os.path.dirname(os.path.dirname(os.path.abspath(__file__)))
props = [json.loads(l)["id"] for l in open(os.path.join(root, "properties.jsonl")) if l.strip()]
checks = []
claimed = []
for pid in props:
    f = os.path.join(root, "checks", pid + ".json")
    if not os.path.exists(f):
        continue
    c = json.load(open(f))
    m = c.get("manifest", {})
    if m.get("claim", "yes") != "yes":
        continue
    claimed.append(pid)
    checks.append({
        "property_id": pid,
        "quick_cmd": "./check %s quick" % pid,
        "thorough_cmd": "./check %s thorough" % pid,
        "evidence_file": "/verif/evidence/%s.json" % pid,
        "replay_cmd_template": "./check %s --replay {path}" % pid,
        "engine": "gosym",
        "level_claimed": {
            "category": "model_checking",
            "text": m.get("level_text", "Bounded symbolic execution of the real code: holds for every input within the stated bounds (see evidence.coverage.bounds); nothing is claimed outside them."),
            "design_ref": "DESIGN.md §5 " + pid,
        },
        "level_note": m.get("level_note", "Trusted: go/ssa construction, the gosym interpreter and term builder (validated per run by native replay of path witnesses), z3, the externals/stub contracts listed in the evidence."),
        "technique": m.get("technique", "solver-based bounded symbolic execution of go/ssa (SMT, z3) with native counterexample replay"),
    })
na_file = os.path.join(root, "tools", "not_applicable.json")
na = json.load(open(na_file)) if os.path.exists(na_file) else {}
not_app = []
for pid in props:
    if pid not in claimed:
        not_app.append({"property_id": pid, "reason": na.get(pid, "check not built yet in this session (work in progress; see DESIGN.md §5 for the plan)")})
m = {
 "version": 1,
 "setup_cmd": "cd /verif/engine && GOFLAGS=-mod=mod GOPROXY=off GOSUMDB=off GOTOOLCHAIN=local go build -o ../bin/gosym ./cmd/gosym",
 "hooks": {
  "guard": "verif",
  "enable": "no source hooks are committed to /repo: harness files (//go:build verif) and generated stub-hook rewrites are laid over /repo's working tree with packages.Config.Overlay (engine) and `go test -tags verif -overlay` (native replay)",
  "baseline_off_cmd": "cd /repo && GOFLAGS=-mod=mod GOPROXY=off go test -vet=off -count=1 ./...",
  "source_commits": [],
  "add_only": True,
 },
 "engines": [{"name": "gosym", "path": "/verif/engine", "serves_properties": claimed,
   "kind_free_text": "bounded symbolic execution of go/ssa (vendored x/tools v0.29.0 interpreter extended with SMT terms); path conditions and assertions discharged by z3 over a pipe; counterexamples and sampled path witnesses replayed against the native build"}],
 "checks": checks,
 "not_applicable": not_app,
 "notes": "Exit codes of every check: 0 held within the bounds; 1 replay-confirmed violation (VIOLATION line); 2 INCONCLUSIVE (truncated path / solver unknown / vacuity witness missing) - never reported as a pass; 3 engine error. Known findings: /verif/known_findings.json.",
}
json.dump(m, open(os.path.join(root, "MANIFEST.json"), "w"), indent=1)
print("claimed:", claimed)
