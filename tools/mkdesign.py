#!/usr/bin/env python3
"""Assemble /verif/DESIGN.md from tools/design_head.md (hand-written), the
check configurations (per-property section) and tools/seed_results.json
(which check catches which seeded change)."""
import json, glob, os
root = os.path.dirname(os.path.dirname(os.path.abspath(__file__)))
head = open(os.path.join(root, "tools", "design_head.md")).read()
props = {}
for l in open(os.path.join(root, "properties.jsonl")):
    if l.strip():
        p = json.loads(l)
        props[p["id"]] = p
out = [head.rstrip(), "", "## 7. Per property: what each check decides (generated from checks/*.json)", "",
       "Every block below is generated from the configuration the check actually runs with, so it cannot drift from the code. "
       "`entries` are harness functions (under /verif/harness, overlaid onto /repo); the parameters are the bounds of the quick / thorough tier.", ""]
for pid in sorted(props):
    f = os.path.join(root, "checks", pid + ".json")
    if not os.path.exists(f):
        continue
    c = json.load(open(f))
    out.append("### %s — %s" % (pid, props[pid]["title"]))
    out.append("")
    m = c.get("manifest", {})
    out.append("*Decides:* " + m.get("level_text", ""))
    out.append("")
    out.append("*Technique:* " + m.get("technique", ""))
    out.append("")
    out.append("*Harness entries:*")
    for e in c["entries"]:
        q = e["params"].get("quick", {})
        t = e["params"].get("thorough", {})
        note = (" — " + e["note"]) if e.get("note") else ""
        out.append("- `%s` in `%s` (quick %s, thorough %s; vacuity witnesses: %s)%s" % (
            e["func"], e["pkg"].replace("github.com/ucan-wg/go-ucan/", ""), json.dumps(q), json.dumps(t), ", ".join(e.get("reach", [])), note))
    if c.get("stubs"):
        out.append("")
        out.append("*Stubs (regenerated from /repo's source on every run):* " + "; ".join(
            ("%s.%s" % (s.get("recv", ""), s["func"]) if s.get("func") else "calls of " + s["call"]) + " in " + s["file"] for s in c["stubs"]))
    out.append("")
    out.append("*Assumptions / environment model:*")
    for a in c.get("assumptions", []):
        out.append("- " + a)
    out.append("")
    out.append("*Bounds:* quick: %s. thorough: %s." % (c["bounds"].get("quick", ""), c["bounds"].get("thorough", "")))
    out.append("")
    out.append("*Outside the claim:* " + "; ".join(c.get("outside_claim", [])))
    out.append("")
# seeds
res_f = os.path.join(root, "tools", "seed_results.json")
res = json.load(open(res_f)) if os.path.exists(res_f) else {}
out += ["## 8. Seeded changes and which checks catch them", "",
        "Each seeded change under /verif/seeded/<id>/ was produced by a fresh sub-agent that saw only the property text and a scratch worktree; "
        "it was kept only after `tools/verify_seed.sh` confirmed in a scratch worktree that it compiles, passes the whole existing suite, and that its demonstration fails with it and passes without it. "
        "`tools/run_seed.sh` applies one to /repo, runs a check and undoes it. Result of the quick tier (exit 1 = replay-confirmed VIOLATION):", "",
        "| seeded change | what it does | needs | checks run → exit |", "|---|---|---|---|"]
for d in sorted(glob.glob(os.path.join(root, "seeded", "*"))):
    sid = os.path.basename(d)
    mf = os.path.join(d, "meta.json")
    meta = json.load(open(mf)) if os.path.exists(mf) else {}
    runs = res.get(sid, {})
    rs = ", ".join("%s → %s" % (k, v) for k, v in sorted(runs.items())) or "not yet run"
    out.append("| %s | %s | %s | %s |" % (sid, meta.get("summary", "").replace("|", "/")[:140], meta.get("needs_to_manifest", "").replace("|", "/")[:200], rs))
out.append("")
tail_f = os.path.join(root, "tools", "design_tail.md")
if os.path.exists(tail_f):
    out.append(open(tail_f).read().rstrip())
open(os.path.join(root, "DESIGN.md"), "w").write("\n".join(out) + "\n")
print("DESIGN.md written:", sum(len(x) for x in out), "chars")
