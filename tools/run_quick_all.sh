#!/bin/bash
# runs every check's quick tier in sequence against /repo (regenerates evidence/*.json)
cd "$(dirname "$0")/.."
for p in ${@:-C01 C02 C03 C04 C05 C06 C07 C08 C09 C10 C11 C12 C13 C14 C15 C16 C17 C18 C19 C20}; do
  s=$(date +%s)
  timeout 2400 ./check $p quick > /tmp/quick.$p.log 2>&1; rc=$?
  e=$(date +%s)
  echo "== $p quick exit=$rc wall=$((e-s))s"
  grep -E "^(VIOLATION|KNOWN|INCONCLUSIVE|ENGINE)" /tmp/quick.$p.log | cut -c1-200 | head -4
done
