#!/bin/bash
# tools/verify_seed.sh <PROP> <mK> : confirm a seeded mutation in its scratch worktree and store it under /verif/seeded/
set -u
export GOFLAGS=-mod=mod GOPROXY=off GOSUMDB=off GOTOOLCHAIN=local
P=$1; M=$2; WT=/tmp/wt/$P; SD=/tmp/seed/$P/$M
[ -d "$WT" ] || git -C /repo worktree add -q --detach $WT HEAD
cd $WT || exit 9
git checkout -q -- . && git clean -fdq
DP=$(grep -o "[a-zA-Z0-9_/.-]*_test\.go" $SD/demo_path.txt | head -1)
PKG=./$(dirname $DP)
cp $SD/demo_test.go $DP
echo "== demo without mutation (expect ok)"; go test -vet=off -count=1 $PKG 2>&1 | tail -3; A=${PIPESTATUS[0]}
rm -f $DP
git apply $SD/patch.diff || { echo "PATCH DOES NOT APPLY"; exit 8; }
echo "== build + full suite with mutation (expect ok)"; go build ./... && go test -vet=off -count=1 ./... 2>&1 | grep -v "no test files" | grep -v "^ok" ; B=${PIPESTATUS[0]}
go test -vet=off -count=1 ./... >/dev/null 2>&1; B=$?
cp $SD/demo_test.go $DP
echo "== demo with mutation (expect FAIL)"; go test -vet=off -count=1 $PKG 2>&1 | tail -6; C=${PIPESTATUS[0]}
rm -f $DP; git checkout -q -- . && git clean -fdq
echo "RESULT without=$A suite=$B with=$C"
if [ $A -eq 0 ] && [ $B -eq 0 ] && [ $C -ne 0 ]; then
  D=/verif/seeded/$P-$M; mkdir -p $D; cp $SD/patch.diff $SD/demo_test.go $SD/demo_path.txt $SD/notes.md $D/ 2>/dev/null
  echo CONFIRMED
else
  echo REJECTED
fi
