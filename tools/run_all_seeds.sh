#!/bin/bash
# tools/run_all_seeds.sh [seed-name-glob] : run every seeded change against the check of its property (quick tier),
# record exit codes in tools/seed_results.json (used by mkmeta.py / mkdesign.py)
cd "$(dirname "$0")/.."
pat=${1:-*}
for d in seeded/$pat; do
  s=$(basename $d); p=${s%%-*}
  out=$(SEED_SCRATCH=1 tools/run_seed.sh $s $p quick 2>&1)
  rc=$(echo "$out" | sed -n 's/.*exit=\([0-9]*\).*/\1/p' | head -1)
  echo "$s $p quick -> exit=$rc"
  python3 - "$s" "$p" "$rc" <<'PY'
import json,sys,os
f='tools/seed_results.json'
r=json.load(open(f)) if os.path.exists(f) else {}
r.setdefault(sys.argv[1],{})[sys.argv[2]+" quick"]="exit "+sys.argv[3]
json.dump(r,open(f,'w'),indent=1,sort_keys=True)
PY
done
