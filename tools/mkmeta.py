#!/usr/bin/env python3
"""Write seeded/<id>/meta.json from notes.md (+ tools/seed_results.json: which checks catch which seed)."""
import json, os, re, glob
root = os.path.dirname(os.path.dirname(os.path.abspath(__file__)))
res_f = os.path.join(root, "tools", "seed_results.json")
results = json.load(open(res_f)) if os.path.exists(res_f) else {}
for d in sorted(glob.glob(os.path.join(root, "seeded", "*"))):
    sid = os.path.basename(d)
    notes = open(os.path.join(d, "notes.md")).read() if os.path.exists(os.path.join(d, "notes.md")) else ""
    title = ""
    for l in notes.splitlines():
        if l.strip():
            title = l.lstrip("# ").strip()
            break
    needs = ""
    m = re.search(r"(?im)^#+\s*(?:input needed|what it needs|needs|trigger)[^\n]*\n(.*?)(?=^#+\s|\Z)", notes, re.S)
    if m:
        needs = " ".join(m.group(1).split())[:900]
    else:
        m = re.search(r"(?is)(needs?|trigger)[^.\n]*[:.]\s*(.{20,600}?)(\n\n|\Z)", notes)
        if m:
            needs = " ".join(m.group(0).split())[:900]
    meta = {
        "seed": sid,
        "property": sid.split("-")[0],
        "summary": title,
        "needs_to_manifest": needs,
        "files": {"patch": "patch.diff", "demonstration": "demo_test.go", "demonstration_path": open(os.path.join(d, "demo_path.txt")).read().strip() if os.path.exists(os.path.join(d, "demo_path.txt")) else ""},
        "confirmed_by": "tools/verify_seed.sh in a scratch worktree of /repo: demonstration passes without the patch, `go build ./...` and the full existing suite pass with the patch, demonstration fails with the patch",
        "checks_run": results.get(sid, {}),
    }
    json.dump(meta, open(os.path.join(d, "meta.json"), "w"), indent=1)
print("ok")
