#!/bin/bash
# runs every check's thorough tier in sequence (development aid; results are printed, evidence is written by each run)
cd "$(dirname "$0")/.."
for p in ${@:-C01 C02 C03 C04 C05 C06 C07 C08 C09 C10 C11 C12 C13 C14 C15 C16 C17 C18 C19 C20}; do
  s=$(date +%s)
  timeout 3600 ./check $p thorough > /tmp/thorough.$p.log 2>&1; rc=$?
  e=$(date +%s)
  echo "== $p thorough exit=$rc wall=$((e-s))s"
  grep -E "^(PASS|VIOLATION|KNOWN|INCONCLUSIVE|ENGINE)" /tmp/thorough.$p.log | cut -c1-300 | head -6
done
