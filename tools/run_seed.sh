#!/bin/bash
# tools/run_seed.sh <seed-dir-name> <PROP> [tier] : apply a seeded mutation, run the check, undo.
# Default: applies to /repo itself (and restores it). With SEED_SCRATCH=1 the change is applied in a
# scratch worktree (/tmp/seedrepo) and the check is pointed at it, so /repo is never touched.
S=/verif/seeded/$1; P=$2; T=${3:-quick}
if [ -n "${SEED_SCRATCH:-}" ]; then
  R=/tmp/seedrepo
  [ -d $R ] || git -C /repo worktree add -q --detach $R HEAD
  (cd $R && git checkout -q -- . && git clean -fdq && git checkout -q --detach $(git -C /repo rev-parse HEAD))
  git -C $R apply $S/patch.diff || exit 8
  cd /verif && GOSYM_REPO=$R GOSYM_WORKDIR_SUFFIX=-seed ./check $P $T > /tmp/seedrun.$1.$P.$T.log 2>&1; RC=$?
  (cd $R && git checkout -q -- . && git clean -fdq)
else
  cd /repo && [ -z "$(git status --porcelain)" ] || { echo "/repo not clean"; exit 9; }
  git -C /repo apply $S/patch.diff || exit 8
  cd /verif && ./check $P $T > /tmp/seedrun.$1.$P.$T.log 2>&1; RC=$?
  git -C /repo checkout -- .
fi
echo "seed=$1 check=$P tier=$T exit=$RC"; grep -E "^(VIOLATION|KNOWN|INCONCLUSIVE|ENGINE)" /tmp/seedrun.$1.$P.$T.log | head -5; grep "violation in" /tmp/seedrun.$1.$P.$T.log | head -3
