#!/bin/bash
# tools/run_seed.sh <seed-dir-name> <PROP> [tier] : apply a seeded mutation to /repo, run the check, undo.
S=/verif/seeded/$1; P=$2; T=${3:-quick}
cd /repo && [ -z "$(git status --porcelain)" ] || { echo "/repo not clean"; exit 9; }
git -C /repo apply $S/patch.diff || exit 8
cd /verif && ./check $P $T > /tmp/seedrun.$1.$P.$T.log 2>&1; RC=$?
git -C /repo checkout -- .
echo "seed=$1 check=$P tier=$T exit=$RC"; grep -E "^(VIOLATION|KNOWN|INCONCLUSIVE|ENGINE)" /tmp/seedrun.$1.$P.$T.log | head -5; grep "violation in" /tmp/seedrun.$1.$P.$T.log | head -3
