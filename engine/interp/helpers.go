package interp

import (
	"fmt"
	"go/types"
	"unicode/utf8"

	"golang.org/x/tools/go/ssa"
)

func signExtK(v uint64, k types.BasicKind) int64 {
	w, signed := kindWidth(k)
	if signed {
		return signExt(v, w)
	}
	return int64(v)
}

func to64(v value) *Term {
	t := toTerm(v)
	w, signed := kindWidth(kindOf(v))
	if w == 0 {
		panic(pathTruncated{"unsupported: bool used as integer"})
	}
	if w < 64 {
		if signed {
			return tSext(t, 64)
		}
		return tZext(t, 64)
	}
	return t
}

// symMakeSize resolves len/cap of make([]T, len, cap).
func symMakeSize(ln, cp value) (int, int) {
	if !isSym(ln) && !isSym(cp) {
		l, c := asInt64(ln), asInt64(cp)
		if l < 0 || l > c {
			panic("runtime error: makeslice: len out of range")
		}
		if c > 1<<22 {
			if eng != nil && eng.measuring {
				panic(allocCut{size: int(c)})
			}
			panic(pathTruncated{fmt.Sprintf("make of %d elements exceeds the engine's allocation cap", c)})
		}
		return int(l), int(c)
	}
	lt, ct := to64(ln), to64(cp)
	ok := tAnd(tOp("bvsle", 0, 0, bvConst(0, 64), lt), tOp("bvsle", 0, 0, lt, ct))
	if !eng.decide(ok) {
		panic("runtime error: makeslice: len out of range")
	}
	if eng.measuring {
		// symbolic size inside vMeasureAlloc: the allocation is not materialised;
		// the size term goes to the harness, which asserts its bound over every
		// value on this path.
		panic(allocCut{size: sym{types.Int, ct}})
	}
	// the size is about to be concretised: refuse unboundedly many values
	if !eng.decide(tOp("bvsle", 0, 0, ct, bvConst(1<<16, 64))) {
		eng.noteAlloc(1 << 62)
		panic(pathTruncated{"make with symbolic size above 65536"})
	}
	c := int64(eng.concretize(ct))
	l := int64(eng.concretize(lt))
	return int(l), int(c)
}

// symSliceBounds validates x[lo:hi:max] with symbolic bounds and returns
// concrete ones (forking over the feasible values).
func symSliceBounds(lo, hi, max value, Len, Cap int) (value, value, value) {
	l := bvConst(0, 64)
	if lo != nil {
		l = to64(lo)
	}
	h := bvConst(uint64(Len), 64)
	if hi != nil {
		h = to64(hi)
	}
	m := bvConst(uint64(Cap), 64)
	if max != nil {
		m = to64(max)
	}
	ok := tAnd(tAnd(tOp("bvsle", 0, 0, bvConst(0, 64), l), tOp("bvsle", 0, 0, l, h)),
		tAnd(tOp("bvsle", 0, 0, h, m), tOp("bvsle", 0, 0, m, bvConst(uint64(Cap), 64))))
	if !eng.decide(ok) {
		panic("runtime error: slice bounds out of range [symbolic]")
	}
	var rl, rh, rm value
	if lo != nil {
		rl = int(eng.concretize(l))
	}
	if hi != nil {
		rh = int(eng.concretize(h))
	}
	if max != nil {
		rm = int(eng.concretize(m))
	}
	return rl, rh, rm
}

// symStringIter implements range over a string with symbolic bytes by
// decoding UTF-8 with forks on the lead/continuation byte classes.
type symStringIter struct {
	s symString
	i int
}

func (it *symStringIter) next() tuple {
	okv := make(tuple, 3)
	if it.i >= len(it.s.b) {
		okv[0] = false
		return okv
	}
	r, n := symDecodeRune(it.s.b[it.i:])
	okv[0] = true
	okv[1] = it.i
	okv[2] = r
	it.i += n
	return okv
}

// symDecodeRune decodes one UTF-8 sequence from b (bytes may be symbolic).
// ASCII bytes stay symbolic (rune = zero-extended byte); for non-ASCII lead
// bytes the sequence is concretised byte by byte (forks).
func symDecodeRune(b []value) (value, int) {
	b0 := b[0]
	if s0, ok := b0.(sym); ok {
		if eng.decide(tOp("bvult", 0, 0, s0.t, bvConst(0x80, 8))) {
			return fromTerm(types.Int32, tZext(s0.t, 32)), 1
		}
	} else if b0.(byte) < 0x80 {
		return int32(b0.(byte)), 1
	}
	// non-ASCII: concretise up to 4 bytes
	buf := make([]byte, 0, 4)
	for i := 0; i < len(b) && i < 4; i++ {
		c := concretizeValue(b[i]).(byte)
		buf = append(buf, c)
		if utf8.FullRune(buf) {
			break
		}
	}
	r, n := utf8.DecodeRune(buf)
	return r, n
}

func symStringToRunes(s symString) value {
	var res []value
	for i := 0; i < len(s.b); {
		r, n := symDecodeRune(s.b[i:])
		res = append(res, r)
		i += n
	}
	return res[:len(res):len(res)]
}

func symRunesToString(rs []value) value {
	var out []value
	for _, r := range rs {
		if sr, ok := r.(sym); ok {
			w, _ := kindWidth(sr.k)
			t := sr.t
			if w != 32 {
				panic(pathTruncated{"unsupported: rune of width != 32"})
			}
			if eng.decide(tOp("bvult", 0, 0, t, bvConst(0x80, 32))) {
				out = append(out, fromTerm(types.Uint8, tExtract(t, 7, 0)))
				continue
			}
			c := int32(eng.concretize(t))
			for _, x := range []byte(string(rune(c))) {
				out = append(out, x)
			}
			continue
		}
		for _, x := range []byte(string(rune(asInt64(r)))) {
			out = append(out, x)
		}
	}
	return normStr(symString{out})
}

// ---- write monitor ----

func (e *Engine) frozenHit(what string) {
	e.frozenHits = append(e.frozenHits, what)
}

func (e *Engine) checkFrozenStore(fr *frame, instr *ssa.Store, addr *value) {
	if lbl, ok := e.frozen[addr]; ok {
		e.frozenHit(fmt.Sprintf("store to %s at %s", lbl, fr.i.prog.Fset.Position(instr.Pos())))
	}
}

func (e *Engine) checkFrozenAppend(dst []value, n int) {
	if e.frozen == nil || n == 0 {
		return
	}
	if len(dst)+n <= cap(dst) { // in-place append writes into the shared backing array
		full := dst[:cap(dst)]
		for i := len(dst); i < len(dst)+n; i++ {
			if lbl, ok := e.frozen[&full[i]]; ok {
				e.frozenHit("in-place append into " + lbl)
				return
			}
		}
	}
}

func (e *Engine) checkFrozenCopy(dst []value, n int) {
	if e.frozen == nil {
		return
	}
	if n > len(dst) {
		n = len(dst)
	}
	for i := 0; i < n; i++ {
		if lbl, ok := e.frozen[&dst[i]]; ok {
			e.frozenHit("copy into " + lbl)
			return
		}
	}
}

// ---- budgets ----

func (e *Engine) noteAlloc(n int) {
	if int64(n) > e.maxAlloc {
		e.maxAlloc = int64(n)
	}
}

func (e *Engine) checkBudget() {
	if e.budget > 0 && e.instrs-e.budgetBase > e.budget {
		panic(budgetExceeded{})
	}
	if e.instrs > e.MaxInstrs {
		panic(pathTruncated{fmt.Sprintf("instruction budget of %d exceeded (unwinding bound)", e.MaxInstrs)})
	}
}

type budgetExceeded struct{}

// allocCut ends the closure run by vMeasureAlloc at an allocation that is too
// large to materialise; size is the requested element count (int or sym).
type allocCut struct{ size value }
