package interp

// Path exploration by re-execution: one call to RunPath interprets the
// harness entry once, following a recorded prefix of decisions and extending
// it; alternatives are returned to the caller (the coordinator's worklist).

import (
	"fmt"
	"go/types"
	"os"
	"runtime"
	"sort"
	"strings"
	"time"

	"golang.org/x/tools/go/ssa"
)

// pathAbort ends the current path silently (infeasible / assumption false).
type pathAbort struct{ why string }

// pathTruncated ends the current path as "outside what the engine could
// decide" (budget, unsupported operation, solver unknown): never a pass.
type pathTruncated struct{ why string }

// engineError is a bug or environment failure of the engine itself.
type engineError struct{ msg string }

// Dec is one recorded decision of a path.
type Dec struct {
	B     bool     `json:"b,omitempty"`
	IsVal bool     `json:"iv,omitempty"`
	V     uint64   `json:"v,omitempty"`
	Excl  []uint64 `json:"x,omitempty"` // alternative entry: any value not in Excl
	HasEx bool     `json:"hx,omitempty"`
}

type ScriptVal struct {
	Tag string `json:"tag"`
	W   int    `json:"w"`
	V   uint64 `json:"v"`
}

type Violation struct {
	Entry   string      `json:"entry"`
	Kind    string      `json:"kind"` // assert | panic | budget
	Msg     string      `json:"msg"`
	Known   string      `json:"known,omitempty"` // id of the known-finding region, if inside one
	Script  []ScriptVal `json:"script"`
	Trace   []string    `json:"trace"` // predicted native trace up to and including the failure
	Pos     string      `json:"pos,omitempty"`
	Prefix  []Dec       `json:"-"`
	Solver  string      `json:"solver"` // sat | model
	PathNum int         `json:"-"`
}

type PathResult struct {
	Status     string      `json:"status"` // done | abort | truncated | panic | error
	Why        string      `json:"why,omitempty"`
	Alts       [][]Dec     `json:"alts,omitempty"`
	Violations []Violation `json:"violations,omitempty"`
	Reach      []string    `json:"reach,omitempty"`
	Witness    []ScriptVal `json:"witness,omitempty"` // model of the completed path
	Trace      []string    `json:"trace,omitempty"`   // predicted native trace for Witness
	Decisions  int         `json:"decisions"`
	Instrs     int64       `json:"instrs"`
	Queries    int         `json:"queries"`
	QSat       int         `json:"qsat"`
	QUnsat     int         `json:"qunsat"`
	QUnknown   int         `json:"qunknown"`
	SolverMs   float64     `json:"solver_ms"`
	WallMs     float64     `json:"wall_ms"`
	NewFuncs   []string    `json:"new_funcs,omitempty"`
	Externals  []string    `json:"externals,omitempty"`
	FrozenHits []string    `json:"frozen_hits,omitempty"`
	Logs       []string    `json:"logs,omitempty"`
	CrossChecked int       `json:"cross_checked,omitempty"` // cumulative per worker
	CrossAgreed  int       `json:"cross_agreed,omitempty"`
}

type event struct {
	kind string // R (reach) A (assert) N (note)
	tag  string
	cond *Term // for A: the asserted condition (nil = concrete true)
}

type knownRegion struct {
	id   string
	cond *Term
}

type Engine struct {
	prog      *ssa.Program
	sizes     types.Sizes
	initPkgs  []*ssa.Package
	denyInit  func(string) bool
	sol       *solverProc
	timeoutMs int

	// configuration
	Pinned       []ScriptVal
	Params       map[string]int
	OpenKnown    map[string]bool // ids of open known findings
	MaxInstrs    int64
	MaxDecs      int
	reportedKn   map[string]bool
	seenFuncs    map[*ssa.Function]bool
	newFuncs     []string
	seenExt      map[string]bool
	newExt       []string
	declared     map[string]int // var name -> epoch declared
	pathsOnProc  int
	world        *interpreter
	saved        map[*ssa.Global]value
	initOnce     map[*value]bool
	InitFailures []string
	InitOK       []string

	// per path
	entry        string
	prefix       []Dec
	taken        []Dec
	pc           []*Term
	alts         [][]Dec
	vars         []*Term
	varTags      []string
	nEnv         int
	mdl          *model
	mdlValid     bool
	events       []event
	pending      []knownRegion
	violations   []Violation
	reach        []string
	logs         []string
	instrs       int64
	pathNo       int
	nowSet       bool
	nowSec       value
	nowNsec      value
	onceDone     map[*value]bool
	frozen       map[*value]string
	frozenHits   []string
	noPanicDepth int
	budget       int64 // violation budget (vBudget), 0 = none
	budgetBase   int64
	measuring    bool // inside vMeasureAlloc
	maxAlloc     int64
	lastPanic    string
}

var eng *Engine

func NewEngine(prog *ssa.Program, sizes types.Sizes, initPkgs []*ssa.Package, denyInit func(string) bool, timeoutMs int) *Engine {
	e := &Engine{prog: prog, sizes: sizes, initPkgs: initPkgs, denyInit: denyInit, timeoutMs: timeoutMs,
		Params: map[string]int{}, OpenKnown: map[string]bool{}, MaxInstrs: 20_000_000, MaxDecs: 20000,
		reportedKn: map[string]bool{}, seenFuncs: map[*ssa.Function]bool{}, seenExt: map[string]bool{}, declared: map[string]int{}}
	e.sol = newSolver(timeoutMs)
	eng = e
	return e
}

func (e *Engine) Close() {
	if e.sol != nil {
		e.sol.close()
	}
}

func (e *Engine) restartSolver() {
	e.sol.close()
	e.sol = newSolver(e.timeoutMs)
}

// ---- variables and model ----

func (e *Engine) fresh(tag string, w int) *Term {
	name := fmt.Sprintf("v%d_%s_w%d", len(e.vars), sanitize(tag), w)
	t := tVar(name, w)
	if e.declared[name] != e.sol.epoch {
		e.declared[name] = e.sol.epoch
		e.sol.send("(declare-const " + name + " " + sortOf(w) + ")")
	}
	e.vars = append(e.vars, t)
	e.varTags = append(e.varTags, tag)
	if strings.HasPrefix(tag, "env:") {
		// environment value (e.g. crypto/rand output): quantified by the solver
		// but not part of the replay script, the native run draws its own
		e.nEnv++
		return t
	}
	if e.Pinned != nil {
		i := len(e.vars) - 1 - e.nEnv
		if i < len(e.Pinned) {
			e.addPC(tEq(t, constOf(e.Pinned[i].V, w)))
			e.mdlValid = false
		}
	}
	return t
}

func constOf(v uint64, w int) *Term {
	if w == 0 {
		return boolConst(v != 0)
	}
	return bvConst(v, w)
}

func sanitize(s string) string {
	var sb strings.Builder
	for _, r := range s {
		if r >= 'a' && r <= 'z' || r >= 'A' && r <= 'Z' || r >= '0' && r <= '9' || r == '_' {
			sb.WriteRune(r)
		} else {
			sb.WriteByte('_')
		}
	}
	return sb.String()
}

// ensureModel makes e.mdl a model of the current path condition.
func (e *Engine) ensureModel() {
	if e.mdlValid {
		return
	}
	r := e.sol.check()
	switch r {
	case "sat":
		e.mdl = newModel()
		e.sol.getModel(e.vars, e.mdl)
		e.mdlValid = true
	case "unsat":
		panic(pathAbort{"path condition unsatisfiable"})
	default:
		r2, m := e.standalone(nil)
		switch r2 {
		case "sat":
			e.mdl, e.mdlValid = m, true
		case "unsat":
			panic(pathAbort{"path condition unsatisfiable"})
		default:
			panic(pathTruncated{"solver unknown on path condition"})
		}
	}
}

// query checks PC ∧ extra...; on sat it returns a fresh model.
func (e *Engine) query(extra ...*Term) (string, *model) {
	e.sol.push()
	for _, x := range extra {
		e.sol.assert(x)
	}
	r := e.sol.check()
	var m *model
	if r == "sat" {
		m = newModel()
		e.sol.getModel(e.vars, m)
	}
	e.sol.pop()
	if r == "unknown" {
		r, m = e.standalone(extra)
	}
	return r, m
}

func (e *Engine) addPC(c *Term) {
	e.pc = append(e.pc, c)
	e.sol.assert(c)
}

// ---- decisions ----

func (e *Engine) countDec() {
	if len(e.taken) > e.MaxDecs {
		if e.budget > 0 {
			// inside a termination budget (vBudget) a run-away number of branch
			// decisions is the same finding as a run-away number of instructions
			panic(budgetExceeded{})
		}
		panic(pathTruncated{fmt.Sprintf("more than %d decisions on one path (unwinding bound)", e.MaxDecs)})
	}
}

// decide resolves a symbolic branch condition, forking if both sides are feasible.
func (e *Engine) decide(c *Term) bool {
	if c.konst() {
		return c.c != 0
	}
	idx := len(e.taken)
	var d bool
	if idx < len(e.prefix) {
		p := e.prefix[idx]
		if p.IsVal {
			panic(engineError{fmt.Sprintf("replay divergence at decision %d: expected value decision, got branch", idx)})
		}
		d = p.B
		e.mdlValid = false
	} else {
		e.ensureModel()
		d = e.mdl.eval(c) != 0
		// is the other side feasible?
		var other *Term
		if d {
			other = tNot(c)
		} else {
			other = c
		}
		r, _ := e.query(other)
		if r != "unsat" { // sat or unknown: explore (sound)
			alt := append(append([]Dec{}, e.taken...), Dec{B: !d})
			e.alts = append(e.alts, alt)
		}
	}
	e.taken = append(e.taken, Dec{B: d})
	e.countDec()
	if os.Getenv("GOSYM_DEBUG_DEC") != "" {
		ts := c.String()
		if len(ts) > 300 {
			ts = ts[:300] + "..."
		}
		fmt.Fprintf(os.Stderr, "decide #%d -> %v : %s\n", idx, d, ts)
	}
	if d {
		e.addPC(c)
	} else {
		e.addPC(tNot(c))
	}
	return d
}

// concretize forks over the feasible values of t.
// fewValues reports whether t has at most max feasible values under the
// current path condition (probing queries only: nothing is forked or assumed).
// On a replayed prefix the recorded decision kind answers the question.
func (e *Engine) fewValues(t *Term, max int) bool {
	if t.konst() {
		return true
	}
	// cheap syntactic filter first: a term over more than 32 bits of variables
	// (e.g. a free 64-bit integer) is not worth probing
	if termVarBits(t, 33) > 32 {
		return false
	}
	if idx := len(e.taken); idx < len(e.prefix) {
		return e.prefix[idx].IsVal
	}
	var excl []*Term
	for i := 0; i <= max; i++ {
		r, m := e.query(excl...)
		if r == "unsat" {
			return true
		}
		if r != "sat" {
			return false
		}
		excl = append(excl, tNot(tEq(t, bvConst(m.eval(t), t.w))))
	}
	return false
}

// termVarBits sums the widths of the distinct variables under t (stops at limit).
func termVarBits(t *Term, limit int) int {
	seen := map[int]bool{}
	bits := 0
	var walk func(x *Term)
	walk = func(x *Term) {
		if bits >= limit || seen[x.id] {
			return
		}
		seen[x.id] = true
		if x.op == "var" {
			w := x.w
			if w == 0 {
				w = 1
			}
			bits += w
			return
		}
		for _, a := range x.args {
			walk(a)
		}
	}
	walk(t)
	return bits
}

func (e *Engine) concretize(t *Term) uint64 {
	if t.konst() {
		return t.c
	}
	idx := len(e.taken)
	var excl []uint64
	if idx < len(e.prefix) {
		p := e.prefix[idx]
		if !p.IsVal {
			panic(engineError{fmt.Sprintf("replay divergence at decision %d: expected branch, got value decision", idx)})
		}
		if !p.HasEx {
			e.taken = append(e.taken, p)
			e.addPC(tEq(t, bvConst(p.V, t.w)))
			e.mdlValid = false
			e.countDec()
			return p.V
		}
		excl = p.Excl
		for _, x := range excl {
			e.addPC(tNot(tEq(t, bvConst(x, t.w))))
		}
		e.mdlValid = false
	}
	e.ensureModel()
	v := e.mdl.eval(t)
	ex2 := append(append([]uint64{}, excl...), v)
	if len(ex2) == 6 && os.Getenv("GOSYM_DEBUG_CONC") != "" {
		buf := make([]byte, 8192)
		n := runtime.Stack(buf, false)
		fmt.Fprintf(os.Stderr, "concretize with >=6 values: term %s\n%s\n", t.String(), buf[:n])
	}
	if len(ex2) > 4096 {
		panic(pathTruncated{"symbolic value with more than 4096 feasible concretisations"})
	}
	r, _ := e.query(tNot(tEq(t, bvConst(v, t.w))))
	if r != "unsat" {
		alt := append(append([]Dec{}, e.taken...), Dec{IsVal: true, HasEx: true, Excl: ex2})
		e.alts = append(e.alts, alt)
	}
	e.taken = append(e.taken, Dec{IsVal: true, V: v})
	e.countDec()
	e.addPC(tEq(t, bvConst(v, t.w)))
	return v
}

func (e *Engine) assume(c *Term) {
	if c.konst() {
		if c.c == 0 {
			panic(pathAbort{"assume false"})
		}
		return
	}
	if e.mdlValid && e.mdl.eval(c) != 0 {
		e.addPC(c)
		return
	}
	e.addPC(c)
	e.mdlValid = false
	if len(e.taken) >= len(e.prefix) {
		e.ensureModel() // aborts the path when infeasible
	}
}

func (e *Engine) script(m *model) []ScriptVal {
	out := make([]ScriptVal, 0, len(e.vars))
	for i, v := range e.vars {
		if strings.HasPrefix(e.varTags[i], "env:") {
			continue
		}
		out = append(out, ScriptVal{Tag: e.varTags[i], W: v.w, V: m.eval(v)})
	}
	return out
}

// traceUnder renders the event list as the native runtime would print it
// when run on model m; stops after the first failing assertion.
func (e *Engine) traceUnder(m *model, upto int) []string {
	var out []string
	for i, ev := range e.events {
		if i >= upto {
			break
		}
		switch ev.kind {
		case "R":
			out = append(out, "R:"+ev.tag)
		case "N":
			out = append(out, "N:"+ev.tag)
		case "A":
			if ev.cond == nil || m.eval(ev.cond) != 0 {
				out = append(out, "A+:"+ev.tag)
			} else {
				out = append(out, "A-:"+ev.tag)
				return out
			}
		}
	}
	return out
}

func (e *Engine) addViolation(kind, msg, known string, m *model, solver string) {
	tr := e.traceUnder(m, len(e.events))
	switch kind {
	case "assert":
		// last event is the assert itself and must fail under m
	case "panic":
		tr = append(tr, "PANIC")
	case "budget":
		tr = append(tr, "BUDGET")
	}
	e.violations = append(e.violations, Violation{Entry: e.entry, Kind: kind, Msg: msg, Known: known,
		Script: e.script(m), Trace: tr, Solver: solver, Prefix: append([]Dec{}, e.taken...)})
}

// assert checks c on the current path: PC ∧ ¬c must be unsatisfiable.
func (e *Engine) assert(c *Term, msg string) {
	pend := e.pending
	e.pending = nil
	e.events = append(e.events, event{kind: "A", tag: msg, cond: c})
	if c.konst() && c.c != 0 {
		return
	}
	neg := tNot(c)
	var open []knownRegion
	for _, k := range pend {
		if e.OpenKnown[k.id] {
			open = append(open, k)
		}
	}
	outside := neg
	for _, k := range open {
		outside = tAnd(outside, tNot(k.cond))
	}
	inPrefix := len(e.taken) < len(e.prefix)
	if !inPrefix { // assertions inside the replayed prefix were already checked by the parent path
		e.ensureModel()
		// 1. violation outside every open known region?
		if !(outside.konst() && outside.c == 0) {
			if e.mdl.eval(outside) != 0 {
				e.addViolation("assert", msg, "", e.mdl, "model")
			} else {
				r, m := e.query(outside)
				e.crossCheck([]*Term{outside}, r)
				switch r {
				case "sat":
					e.addViolation("assert", msg, "", m, "sat")
				case "unknown":
					panic(pathTruncated{"solver unknown on assertion: " + msg})
				}
			}
		}
		// 2. witnesses for open known regions (once per worker and id)
		for _, k := range open {
			if e.reportedKn[k.id] {
				continue
			}
			r, m := e.query(tAnd(neg, k.cond))
			if r == "sat" {
				e.reportedKn[k.id] = true
				e.addViolation("assert", msg, k.id, m, "sat")
			}
		}
	}
	// continue on the side where the assertion holds
	if c.konst() {
		panic(pathAbort{"assertion fails on every input of this path"})
	}
	if e.mdlValid && e.mdl.eval(c) != 0 {
		e.addPC(c)
		return
	}
	e.addPC(c)
	e.mdlValid = false
	if !inPrefix {
		e.ensureModel()
	}
}

// ---- running one path ----

func (e *Engine) resetPath(entry string, prefix []Dec) {
	e.entry = entry
	e.prefix = prefix
	e.taken = nil
	e.pc = nil
	e.alts = nil
	e.vars = nil
	e.varTags = nil
	e.nEnv = 0
	e.mdl = nil
	e.mdlValid = false
	e.events = nil
	e.pending = nil
	e.violations = nil
	e.reach = nil
	e.logs = nil
	e.instrs = 0
	e.nowSet = false
	e.onceDone = map[*value]bool{}
	e.frozen = nil
	e.frozenHits = nil
	e.noPanicDepth = 0
	e.budget = 0
	e.measuring = false
	e.maxAlloc = 0
	e.lastPanic = ""
}

func describePanic(p interface{}) string {
	switch p := p.(type) {
	case targetPanic:
		if i, ok := p.v.(iface); ok && i.t != nil {
			switch i.v.(type) {
			case *value, structure:
				// an error / struct value: its type names it (no host addresses in messages)
				return "panic: value of type " + i.t.String()
			}
		}
		return "panic: " + toString(p.v)
	case runtime.Error:
		return "runtime error: " + p.Error()
	case string:
		return "runtime panic: " + p
	case error:
		return "error panic: " + p.Error()
	}
	return fmt.Sprintf("panic %T: %v", p, p)
}

// isTargetPanic reports whether a recovered host panic value stands for a
// panic of the interpreted program (as opposed to an engine control value).
func isTargetPanic(p interface{}) bool {
	switch p := p.(type) {
	case pathAbort, pathTruncated, engineError, budgetExceeded:
		return false
	case targetPanic:
		return true
	case *runtime.TypeAssertionError:
		return false
	case runtime.Error:
		_ = p
		return true
	case string:
		return true
	case exitPanic:
		return false
	}
	return false
}

func (e *Engine) RunPath(fn *ssa.Function, prefix []Dec) (res PathResult) {
	t0 := time.Now()
	e.resetPath(fn.Name(), prefix)
	e.pathsOnProc++
	if e.pathsOnProc%2000 == 0 {
		// bound solver memory: definitions accumulate under global-declarations
		e.restartSolver()
	}
	q0, s0, u0, k0, sp0 := e.sol.Queries, e.sol.Sat, e.sol.Unsat, e.sol.Unknown, e.sol.Spent
	e.sol.push()
	status, why := "done", ""
	func() {
		defer func() {
			if r := recover(); r != nil {
				switch r := r.(type) {
				case pathAbort:
					status, why = "abort", r.why
				case pathTruncated:
					status, why = "truncated", r.why
				case engineError:
					status, why = "error", r.msg
				case budgetExceeded:
					status, why = "budget", fmt.Sprintf("instruction budget %d (vBudget) exceeded", e.budget)
				case *runtime.TypeAssertionError:
					buf := make([]byte, 1<<16)
					n := runtime.Stack(buf, false)
					status, why = "truncated", "unsupported (host type assertion): "+r.Error()+"\n"+string(buf[:n])
				default:
					if isTargetPanic(r) {
						status, why = "panic", describePanic(r)
					} else {
						buf := make([]byte, 1<<16)
						n := runtime.Stack(buf, false)
						status, why = "error", fmt.Sprintf("%T: %v\n%s", r, r, buf[:n])
					}
				}
			}
		}()
		e.runEntry(fn)
	}()
	if status == "budget" {
		func() {
			defer func() {
				if r := recover(); r != nil {
					status, why = "truncated", "no model for over-budget path"
				}
			}()
			if len(e.taken) >= len(e.prefix) {
				e.mdlValid = false
				e.ensureModel()
				e.addViolation("budget", why, "", e.mdl, "sat")
			}
			status = "done"
		}()
	}
	if status == "panic" {
		// a panic escaping the harness entry is reported as a violation
		func() {
			defer func() {
				if r := recover(); r != nil {
					status, why = "truncated", "no model for panicking path"
				}
			}()
			if len(e.taken) >= len(e.prefix) {
				e.mdlValid = false
				e.ensureModel()
				e.addViolation("panic", why, "", e.mdl, "sat")
			}
		}()
	}
	if status == "done" {
		func() {
			defer func() {
				if r := recover(); r != nil {
					if _, ok := r.(pathAbort); ok {
						status, why = "abort", "final path condition unsatisfiable"
						return
					}
					status, why = "truncated", "no model for completed path"
				}
			}()
			e.mdlValid = false
			e.ensureModel()
			res.Witness = e.script(e.mdl)
			res.Trace = e.traceUnder(e.mdl, len(e.events))
		}()
	}
	e.sol.pop()
	if e.sol.depth != 0 || e.sol.dead {
		// unbalanced push/pop after an abort inside query, or a killed solver: restart
		e.restartSolver()
	}
	res.Status, res.Why = status, why
	res.Alts = e.alts
	res.Violations = e.violations
	res.Reach = e.reach
	res.Decisions = len(e.taken)
	res.Instrs = e.instrs
	res.Queries = e.sol.Queries - q0
	res.QSat, res.QUnsat, res.QUnknown = e.sol.Sat-s0, e.sol.Unsat-u0, e.sol.Unknown-k0
	res.SolverMs = float64(e.sol.Spent-sp0) / 1e6
	res.WallMs = float64(time.Since(t0)) / 1e6
	res.NewFuncs = e.newFuncs
	res.Externals = e.newExt
	e.newFuncs, e.newExt = nil, nil
	res.FrozenHits = e.frozenHits
	res.Logs = e.logs
	res.CrossChecked, res.CrossAgreed = CrossStats.Checked, CrossStats.Agreed
	if status != "done" && status != "abort" {
		// alternatives discovered before a truncation are still valid work
	}
	return res
}

// initWorld creates the interpreter state and runs package initialisation
// once per worker process: every package's init$guard is pre-set, then the
// init functions of the allow-listed packages are run one by one in
// dependency order, each isolated under recover. Afterwards the contents of
// all global cells are saved; runEntry restores them before each path
// (shallowly: memory reachable through pointers/slices/maps held by globals
// is shared between paths and assumed not to be mutated by harness runs).
func (e *Engine) initWorld() {
	i := &interpreter{
		prog:       e.prog,
		globals:    make(map[*ssa.Global]*value),
		sizes:      e.sizes,
		goroutines: 1,
	}
	if os.Getenv("GOSYM_TRACE") != "" {
		i.mode |= EnableTracing
	}
	runtimePkg := e.prog.ImportedPackage("runtime")
	if runtimePkg == nil {
		panic(engineError{"no runtime package in program"})
	}
	i.runtimeErrorString = runtimePkg.Type("errorString").Object().Type()
	initReflect(i)
	byTypes := map[*types.Package]*ssa.Package{}
	for _, pkg := range e.prog.AllPackages() {
		byTypes[pkg.Pkg] = pkg
		for _, m := range pkg.Members {
			if v, ok := m.(*ssa.Global); ok {
				cell := zero(deref(v.Type()))
				i.globals[v] = &cell
			}
		}
		if g, ok := pkg.Members["init$guard"].(*ssa.Global); ok {
			*i.globals[g] = true
		}
	}
	// dependency order
	var order []*ssa.Package
	seen := map[*types.Package]bool{}
	var visit func(p *types.Package)
	visit = func(p *types.Package) {
		if seen[p] {
			return
		}
		seen[p] = true
		for _, imp := range p.Imports() {
			visit(imp)
		}
		if sp := byTypes[p]; sp != nil {
			order = append(order, sp)
		}
	}
	pkgs := e.prog.AllPackages()
	sort.Slice(pkgs, func(a, b int) bool { return pkgs[a].Pkg.Path() < pkgs[b].Pkg.Path() })
	for _, p := range pkgs {
		visit(p.Pkg)
	}
	saveMax := e.MaxInstrs
	e.MaxInstrs = 1 << 62
	e.onceDone = map[*value]bool{}
	for _, p := range order {
		if e.denyInit(p.Pkg.Path()) {
			continue
		}
		initFn := p.Func("init")
		if initFn == nil {
			continue
		}
		g, _ := p.Members["init$guard"].(*ssa.Global)
		if g != nil {
			*i.globals[g] = false
		}
		func() {
			defer func() {
				if r := recover(); r != nil {
					e.InitFailures = append(e.InitFailures, p.Pkg.Path()+": "+firstLine(fmt.Sprint(describeAny(r))))
				}
			}()
			call(i, nil, 0, initFn, nil)
			e.InitOK = append(e.InitOK, p.Pkg.Path())
		}()
		if g != nil {
			*i.globals[g] = true
		}
	}
	e.MaxInstrs = saveMax
	e.initOnce = e.onceDone
	e.world = i
	e.saved = make(map[*ssa.Global]value, len(i.globals))
	for g, cell := range i.globals {
		e.saved[g] = copyInline(*cell)
	}
}

func describeAny(r interface{}) string {
	switch r := r.(type) {
	case pathAbort:
		return "abort: " + r.why
	case pathTruncated:
		return "truncated: " + r.why
	case engineError:
		return "engine error: " + r.msg
	}
	return describePanic(r)
}

func firstLine(s string) string {
	if i := strings.IndexByte(s, '\n'); i >= 0 {
		return s[:i]
	}
	return s
}

// copyInline copies the parts of a value that are stored inline in a cell
// (struct fields, array elements); references are shared.
func copyInline(v value) value {
	switch v := v.(type) {
	case structure:
		c := make(structure, len(v))
		for i := range v {
			c[i] = copyInline(v[i])
		}
		return c
	case array:
		c := make(array, len(v))
		for i := range v {
			c[i] = copyInline(v[i])
		}
		return c
	}
	return v
}

func (e *Engine) runEntry(fn *ssa.Function) {
	if e.world == nil {
		e.initWorld()
	}
	for g, cell := range e.world.globals {
		*cell = copyInline(e.saved[g])
	}
	e.onceDone = map[*value]bool{}
	for k, v := range e.initOnce {
		e.onceDone[k] = v
	}
	e.instrs = 0
	call(e.world, nil, 0, fn, nil)
}

func (e *Engine) noteFunc(fn *ssa.Function) {
	if e.world == nil {
		return // package initialisation is not part of the encoded behaviour
	}
	if !e.seenFuncs[fn] {
		e.seenFuncs[fn] = true
		if strings.Contains(e.prog.Fset.Position(fn.Pos()).Filename, "zz_verif") {
			return // harness code
		}
		e.newFuncs = append(e.newFuncs, fn.String())
	}
}

func (e *Engine) noteExternal(name string) {
	if e.world == nil {
		return
	}
	if !e.seenExt[name] {
		e.seenExt[name] = true
		e.newExt = append(e.newExt, name)
	}
}

func sortedKeys(m map[string]bool) []string {
	var out []string
	for k := range m {
		out = append(out, k)
	}
	sort.Strings(out)
	return out
}

// Init runs package initialisation once; it returns a non-empty message on failure.
func (e *Engine) Init() (msg string) {
	defer func() {
		if r := recover(); r != nil {
			msg = describeAny(r)
		}
	}()
	e.initWorld()
	return ""
}
