package interp

// Engine-native replacements ("externals") for functions that cannot be
// interpreted from source (assembly, unsafe, runtime, reflection) plus the
// environment model (fmt, time.Now, sync). Symbolic-aware where noted.

import (
	"fmt"
	"reflect"
	"go/token"
	"go/types"
	"strconv"
	"strings"
	"unsafe"

	"golang.org/x/tools/go/ssa"
)

func init() {
	// Interpreted from the standard library source instead of upstream's
	// host shortcuts, so that symbolic strings flow through the real code.
	for _, k := range []string{
		"bytes.Equal", "bytes.IndexByte", "fmt.Sprint",
		"sort.Float64s", "sort.Ints", "sort.Strings",
		"strconv.Atoi", "strconv.Itoa", "strconv.FormatFloat",
		"strings.Count", "strings.EqualFold", "strings.Index", "strings.IndexByte", "strings.Replace", "strings.ToLower",
		"unicode/utf8.DecodeRuneInString",
	} {
		delete(externals, k)
	}

	ext := func(name string, f externalFn) { externals[name] = f }

	// ---- internal/bytealg ----
	indexByte := func(fr *frame, args []value) value {
		var s []value
		switch x := args[0].(type) {
		case []value:
			s = x
		case string:
			ss, _ := asSymString(x)
			s = ss.b
		case symString:
			s = x.b
		}
		c := toTerm(args[1])
		for i, b := range s {
			if eng.decide(tEq(toTerm(b), c)) {
				return i
			}
		}
		return -1
	}
	ext("internal/bytealg.IndexByte", indexByte)
	ext("internal/bytealg.IndexByteString", indexByte)
	count := func(fr *frame, args []value) value {
		var s []value
		switch x := args[0].(type) {
		case []value:
			s = x
		case string:
			ss, _ := asSymString(x)
			s = ss.b
		case symString:
			s = x.b
		}
		c := toTerm(args[1])
		n := bvConst(0, 64)
		for _, b := range s {
			n = tOp("bvadd", 64, 0, n, tIte(tEq(toTerm(b), c), bvConst(1, 64), bvConst(0, 64)))
		}
		return fromTerm(types.Int, n)
	}
	ext("internal/bytealg.Count", count)
	ext("internal/bytealg.CountString", count)
	ext("internal/bytealg.Equal", func(fr *frame, args []value) value {
		return fromTerm(types.Bool, strEq(symString{args[0].([]value)}, symString{args[1].([]value)}))
	})
	ext("internal/bytealg.Compare", func(fr *frame, args []value) value {
		a, b := symString{args[0].([]value)}, symString{args[1].([]value)}
		lt := strLess(a, b)
		eq := strEq(a, b)
		return fromTerm(types.Int, tIte(lt, bvConst(^uint64(0), 64), tIte(eq, bvConst(0, 64), bvConst(1, 64))))
	})
	ext("internal/bytealg.MakeNoZero", func(fr *frame, args []value) value {
		n := int(asInt64(args[0]))
		s := make([]value, n)
		for i := range s {
			s[i] = byte(0)
		}
		return s
	})
	naiveIndex := func(fr *frame, args []value) value {
		a, _ := toBytes(args[0])
		b, _ := toBytes(args[1])
		for i := 0; i+len(b) <= len(a); i++ {
			if eng.decide(strEq(symString{a[i : i+len(b)]}, symString{b})) {
				return i
			}
		}
		return -1
	}
	ext("internal/bytealg.Index", naiveIndex)
	ext("internal/bytealg.IndexString", naiveIndex)
	ext("internal/bytealg.Cutover", func(fr *frame, args []value) value { return 4 })

	// ---- strings.Builder (unsafe) ----
	ext("(*strings.Builder).copyCheck", func(fr *frame, args []value) value { return nil })
	ext("(*strings.Builder).String", func(fr *frame, args []value) value {
		st := (*args[0].(*value)).(structure)
		buf := st[1].([]value)
		return normStr(symString{append([]value{}, buf...)})
	})
	ext("strings.Clone", func(fr *frame, args []value) value { return args[0] })
	ext("bytes.Clone", func(fr *frame, args []value) value {
		b := args[0].([]value)
		if b == nil {
			return []value(nil)
		}
		return append([]value{}, b...)
	})

	// ---- sort.Slice via reflectlite.Swapper ----
	ss := func(fr *frame, args []value) value {
		s := args[0].(iface).v.([]value)
		less := args[1]
		for a := 1; a < len(s); a++ {
			for b := a; b > 0; b-- {
				r := call(fr.i, fr, 0, less, []value{b, b - 1})
				if sr, ok := r.(sym); ok {
					r = eng.decide(sr.t)
				}
				if r.(bool) {
					if eng != nil && eng.frozen != nil {
						if lbl, ok := eng.frozen[&s[b]]; ok {
							eng.frozenHit("sort swap in " + lbl)
						}
					}
					s[b], s[b-1] = s[b-1], s[b]
				} else {
					break
				}
			}
		}
		return nil
	}
	ext("sort.Slice", ss)
	ext("sort.SliceStable", ss)

	// ---- errors ----
	ext("errors.Is", func(fr *frame, args []value) value {
		err, target := args[0].(iface), args[1].(iface)
		if err.t == nil || target.t == nil {
			return err.t == nil && target.t == nil
		}
		isFn := fr.i.prog.ImportedPackage("errors").Func("is")
		return call(fr.i, fr, 0, isFn, []value{err, target, types.Comparable(target.t)})
	})
	ext("errors.As", extErrorsAs)

	// ---- fmt (message text is a placeholder rendering; outside every claim) ----
	ext("fmt.Sprintf", func(fr *frame, args []value) value { return miniSprintf(fr, args[0], args[1].([]value)) })
	ext("fmt.Sprint", func(fr *frame, args []value) value { return miniSprint(fr, args[0].([]value), "") })
	ext("fmt.Sprintln", func(fr *frame, args []value) value { return miniSprint(fr, args[0].([]value), " ") })
	ext("fmt.Errorf", func(fr *frame, args []value) value {
		msg := miniSprintf(fr, args[0], args[1].([]value))
		var wrapped []iface
		if f, ok := args[0].(string); ok && strings.Contains(f, "%w") {
			for _, a := range args[1].([]value) {
				if ia, ok := a.(iface); ok && ia.t != nil && types.Implements(ia.t, errorIface()) {
					wrapped = append(wrapped, ia)
				}
			}
		}
		fmtPkg := fr.i.prog.ImportedPackage("fmt")
		if len(wrapped) == 0 {
			t := fmtPkg.Type("wrapError").Type()
			var cell value = structure{msg, iface{}}
			return iface{t: types.NewPointer(t), v: &cell}
		}
		if len(wrapped) == 1 {
			t := fmtPkg.Type("wrapError").Type()
			var cell value = structure{msg, wrapped[0]}
			return iface{t: types.NewPointer(t), v: &cell}
		}
		t := fmtPkg.Type("wrapErrors").Type()
		errs := make([]value, len(wrapped))
		for i, w := range wrapped {
			errs[i] = w
		}
		var cell value = structure{msg, errs}
		return iface{t: types.NewPointer(t), v: &cell}
	})
	fprint := func(fr *frame, w value, s value) value {
		wi := w.(iface)
		b, _ := toBytes(s)
		r, ok := callMethod(fr, wi, "Write", []value{append([]value{}, b...)})
		if !ok {
			panic(pathTruncated{"unsupported: fmt.Fprint to writer without Write"})
		}
		return r
	}
	ext("fmt.Fprintf", func(fr *frame, args []value) value {
		return fprint(fr, args[0], miniSprintf(fr, args[1], args[2].([]value)))
	})
	ext("fmt.Fprint", func(fr *frame, args []value) value {
		return fprint(fr, args[0], miniSprint(fr, args[1].([]value), ""))
	})
	ext("fmt.Fprintln", func(fr *frame, args []value) value {
		s := miniSprint(fr, args[1].([]value), " ")
		return fprint(fr, args[0], binop(token.ADD, nil, s, "\n"))
	})
	ext("fmt.Printf", func(fr *frame, args []value) value { return tuple{0, iface{}} })
	ext("fmt.Println", func(fr *frame, args []value) value { return tuple{0, iface{}} })
	ext("fmt.Print", func(fr *frame, args []value) value { return tuple{0, iface{}} })

	// ---- strconv: rendering a symbolic number gives a placeholder (text is outside every claim) ----
	symNum := func(ret func(args []value) value) externalFn {
		return func(fr *frame, args []value) value {
			for _, a := range args {
				if isSym(a) {
					return ret(args)
				}
			}
			return extFallthrough
		}
	}
	str := func(args []value) value { return "<symnum>" }
	app := func(args []value) value {
		return append(args[0].([]value), []value{byte('<'), byte('n'), byte('>')}...)
	}
	for _, n := range []string{"strconv.FormatInt", "strconv.Itoa", "strconv.FormatUint", "strconv.FormatFloat", "strconv.FormatBool"} {
		ext(n, symNum(str))
	}
	// a symbolic integer with only a few feasible values (e.g. one parsed from a
	// short digit string) is case-split and rendered exactly
	exactInt := func(base func(args []value) int, signed bool, fallback externalFn) externalFn {
		return func(fr *frame, args []value) value {
			sx, ok := args[0].(sym)
			if !ok || isFloatKind(sx.k) {
				return fallback(fr, args)
			}
			b := base(args)
			if b < 2 || !eng.fewValues(sx.t, 16) {
				return fallback(fr, args)
			}
			w, _ := kindWidth(sx.k)
			v := eng.concretize(sx.t)
			if signed {
				return strconv.FormatInt(signExt(v, w), b)
			}
			return strconv.FormatUint(v, b)
		}
	}
	ten := func(args []value) int { return 10 }
	argBase := func(args []value) int {
		if _, ok := args[1].(sym); ok {
			return 0
		}
		return int(asInt64(args[1]))
	}
	ext("strconv.Itoa", exactInt(ten, true, symNum(str)))
	ext("strconv.FormatInt", exactInt(argBase, true, symNum(str)))
	ext("strconv.FormatUint", exactInt(argBase, false, symNum(str)))
	for _, n := range []string{"strconv.AppendInt", "strconv.AppendUint", "strconv.AppendFloat"} {
		ext(n, symNum(app))
	}

	// ---- crypto/rand: fresh environment bytes (not part of the replay script) ----
	randFill := func(b []value) {
		for i := range b {
			b[i] = sym{types.Uint8, eng.fresh(fmt.Sprintf("env:rand_%d", eng.nEnv), 8)}
		}
	}
	ext("crypto/rand.Read", func(fr *frame, args []value) value {
		b := args[0].([]value)
		randFill(b)
		return tuple{len(b), iface{}}
	})

	// ---- time ----
	ext("time.Now", func(fr *frame, args []value) value {
		if eng == nil || !eng.nowSet {
			panic(pathTruncated{"time.Now called but the harness did not set vNow"})
		}
		// wall clock reading without monotonic part: wall = nsec, ext = seconds since year 1
		sec := binop(addTok, types.Typ[types.Int64], eng.nowSec, int64(62135596800))
		wall := conv(types.Typ[types.Uint64], types.Typ[types.Int64], eng.nowNsec)
		return structure{wall, sec, (*value)(nil)}
	})
	ext("time.runtimeNano", func(fr *frame, args []value) value { return int64(0) })

	// ---- sync ----
	nop := func(fr *frame, args []value) value { return nil }
	for _, n := range []string{"(*sync.Mutex).Lock", "(*sync.Mutex).Unlock", "(*sync.RWMutex).Lock", "(*sync.RWMutex).Unlock",
		"(*sync.RWMutex).RLock", "(*sync.RWMutex).RUnlock", "(*sync.WaitGroup).Add", "(*sync.WaitGroup).Done", "(*sync.WaitGroup).Wait",
		"runtime.SetFinalizer", "runtime.KeepAlive", "(*sync.Pool).Put", "runtime.Gosched"} {
		ext(n, nop)
	}
	ext("(*sync.Mutex).TryLock", func(fr *frame, args []value) value { return true })
	ext("(*sync.Once).Do", func(fr *frame, args []value) value {
		p := args[0].(*value)
		if eng.onceDone[p] {
			return nil
		}
		eng.onceDone[p] = true
		call(fr.i, fr, 0, args[1], nil)
		return nil
	})
	ext("(*sync.Pool).Get", func(fr *frame, args []value) value {
		st := (*args[0].(*value)).(structure)
		newFn := st[len(st)-1]
		switch f := newFn.(type) {
		case *ssa.Function:
			if f == nil {
				return iface{}
			}
		}
		return call(fr.i, fr, 0, newFn, nil)
	})
	for _, ty := range []string{"Int32", "Int64", "Uint32", "Uint64", "Uintptr", "Pointer"} {
		ext("sync/atomic.Load"+ty, func(fr *frame, args []value) value { return *args[0].(*value) })
		ext("sync/atomic.Store"+ty, func(fr *frame, args []value) value { *args[0].(*value) = args[1]; return nil })
		ext("sync/atomic.Swap"+ty, func(fr *frame, args []value) value {
			p := args[0].(*value)
			old := *p
			*p = args[1]
			return old
		})
		ext("sync/atomic.CompareAndSwap"+ty, func(fr *frame, args []value) value {
			p := args[0].(*value)
			c := eqValue(nil, *p, args[1])
			if eng.decide(c) {
				*p = args[2]
				return true
			}
			return false
		})
		if ty != "Pointer" {
			ext("sync/atomic.Add"+ty, func(fr *frame, args []value) value {
				p := args[0].(*value)
				*p = binop(addTok, nil, *p, args[1])
				return *p
			})
		}
	}

	// ---- math/bits & misc pure helpers implemented by the compiler as intrinsics have Go bodies; nothing needed ----

	// curve parameter tables are big-number code the engine does not run: the
	// constructors return a nil Curve (harnesses that reach curve arithmetic
	// replace it by stand-ins anyway); keeps package initialisers that mention a
	// curve from failing
	for _, n := range []string{"crypto/elliptic.P224", "crypto/elliptic.P256", "crypto/elliptic.P384", "crypto/elliptic.P521"} {
		ext(n, func(fr *frame, args []value) value { return iface{} })
	}
	ext("crypto/internal/boring/sig.StandardCrypto", nop)
	ext("crypto/internal/boring/sig.BoringCrypto", nop)
	ext("crypto/internal/boring/sig.FIPSOnly", nop)

	// ---- reflect: kind predicates ----
	kindIn := func(lo, hi reflect.Kind) externalFn {
		return func(fr *frame, args []value) value {
			k := reflectKind(rV2T(args[0]).t)
			return k >= lo && k <= hi
		}
	}
	ext("(reflect.Value).CanInt", kindIn(reflect.Int, reflect.Int64))
	ext("(reflect.Value).CanUint", kindIn(reflect.Uint, reflect.Uintptr))
	ext("(reflect.Value).CanFloat", kindIn(reflect.Float32, reflect.Float64))

	// ---- os / runtime odds and ends ----
	ext("runtime.Callers", func(fr *frame, args []value) value { return 0 })
	ext("runtime.Caller", func(fr *frame, args []value) value { return tuple{uintptr(0), "", 0, false} })
	ext("internal/godebug.(*Setting).Value", func(fr *frame, args []value) value { return "" })
	ext("(*internal/godebug.Setting).Value", func(fr *frame, args []value) value { return "" })
	ext("(*internal/godebug.Setting).IncNonDefault", nop)
	ext("internal/godebug.New", func(fr *frame, args []value) value { var c value = structure{"", nil}; return &c })
}

const addTok = token.ADD

// extFallthrough is returned by an external that declines the call: the
// function is then interpreted from its source.
type extFallthroughT struct{}

var extFallthrough = &extFallthroughT{}

func errorIface() *types.Interface {
	return types.Universe.Lookup("error").Type().Underlying().(*types.Interface)
}

func toBytes(v value) ([]value, bool) {
	switch x := v.(type) {
	case []value:
		return x, true
	case string:
		ss, _ := asSymString(x)
		return ss.b, true
	case symString:
		return x.b, true
	}
	return nil, false
}

// callMethod calls method name on the dynamic value of x, if it has one.
func callMethod(fr *frame, x iface, name string, args []value) (value, bool) {
	if x.t == nil {
		return nil, false
	}
	ms := fr.i.prog.MethodSets.MethodSet(x.t)
	var sel *types.Selection
	for i := 0; i < ms.Len(); i++ {
		if ms.At(i).Obj().Name() == name {
			sel = ms.At(i)
			break
		}
	}
	if sel == nil {
		return nil, false
	}
	fn := fr.i.prog.MethodValue(sel)
	if fn == nil {
		return nil, false
	}
	return call(fr.i, fr, 0, fn, append([]value{x.v}, args...)), true
}

func renderArg(fr *frame, a value, verb byte) string {
	if containsSym(a) {
		return "<sym>"
	}
	switch x := a.(type) {
	case iface:
		if x.t == nil {
			return "<nil>"
		}
		if verb == 'T' {
			return x.t.String()
		}
		if verb != 'd' && verb != 'x' && verb != 'T' {
			if types.Implements(x.t, errorIface()) {
				if r, ok := safeCallMethod(fr, x, "Error"); ok {
					return renderArg(fr, r, 's')
				}
			}
			if r, ok := safeCallMethod(fr, x, "String"); ok {
				return renderArg(fr, r, 's')
			}
		}
		return renderArg(fr, x.v, verb)
	case string:
		if verb == 'q' {
			return strconv.Quote(x)
		}
		return x
	case symString:
		return "<sym-string>"
	case sym:
		return "<sym>"
	case bool:
		return strconv.FormatBool(x)
	case []value:
		if verb == 's' || verb == 'x' {
			if s, ok := normStr(symString{x}).(string); ok {
				if verb == 'x' {
					return fmt.Sprintf("%x", s)
				}
				return s
			}
		}
		return "[...]"
	case int, int8, int16, int32, int64, uint, uint8, uint16, uint32, uint64, uintptr, float32, float64:
		switch verb {
		case 'x':
			return fmt.Sprintf("%x", x)
		case 'c':
			return fmt.Sprintf("%c", x)
		case 'q':
			return fmt.Sprintf("%q", x)
		}
		return fmt.Sprint(x)
	case *value:
		if x == nil {
			return "<nil>"
		}
		return "0xptr"
	}
	return "<" + strings.TrimPrefix(fmt.Sprintf("%T", a), "interp.") + ">"
}

func safeCallMethod(fr *frame, x iface, name string) (r value, ok bool) {
	defer func() {
		if p := recover(); p != nil {
			if !isTargetPanic(p) {
				panic(p)
			}
			r, ok = "<panic in "+name+">", true
		}
	}()
	// value methods on nil pointers etc. may panic; report textually
	if pv, isPtr := x.v.(*value); isPtr && pv == nil {
		return "<nil>", true
	}
	ms := fr.i.prog.MethodSets.MethodSet(x.t)
	for i := 0; i < ms.Len(); i++ {
		m := ms.At(i)
		if m.Obj().Name() == name {
			sig := m.Type().(*types.Signature)
			if sig.Params().Len() != 0 || sig.Results().Len() != 1 {
				return nil, false
			}
			if b, isB := sig.Results().At(0).Type().Underlying().(*types.Basic); !isB || b.Kind() != types.String {
				return nil, false
			}
			return callMethod(fr, x, name, nil)
		}
	}
	return nil, false
}

func miniSprintf(fr *frame, format value, args []value) value {
	f, ok := format.(string)
	if !ok {
		return "<fmt:symbolic-format>"
	}
	var sb strings.Builder
	ai := 0
	for i := 0; i < len(f); i++ {
		c := f[i]
		if c != '%' {
			sb.WriteByte(c)
			continue
		}
		i++
		// flags / width / precision
		for i < len(f) && strings.IndexByte("+-# 0123456789.*", f[i]) >= 0 {
			i++
		}
		if i >= len(f) {
			break
		}
		verb := f[i]
		if verb == '%' {
			sb.WriteByte('%')
			continue
		}
		if ai < len(args) {
			sb.WriteString(renderArg(fr, args[ai], verb))
			ai++
		} else {
			sb.WriteString("%!" + string(verb) + "(MISSING)")
		}
	}
	return sb.String()
}

func miniSprint(fr *frame, args []value, sep string) value {
	var sb strings.Builder
	for i, a := range args {
		if i > 0 {
			sb.WriteString(sep)
		}
		sb.WriteString(renderArg(fr, a, 'v'))
	}
	return sb.String()
}

// errors.As(err error, target any) bool
func extErrorsAs(fr *frame, args []value) value {
	err, target := args[0].(iface), args[1].(iface)
	if err.t == nil {
		return false
	}
	if target.t == nil {
		panic(targetPanic{iface{fr.i.runtimeErrorString, "errors: target cannot be nil"}})
	}
	pt, ok := target.t.Underlying().(*types.Pointer)
	if !ok || target.v.(*value) == nil {
		panic(targetPanic{iface{fr.i.runtimeErrorString, "errors: target must be a non-nil pointer"}})
	}
	targetType := pt.Elem()
	dst := target.v.(*value)
	_, targetIsIface := targetType.Underlying().(*types.Interface)
	var walk func(e iface, depth int) bool
	walk = func(e iface, depth int) bool {
		if e.t == nil || depth > 64 {
			return false
		}
		if targetIsIface {
			if types.Implements(e.t, targetType.Underlying().(*types.Interface)) {
				*dst = e
				return true
			}
		} else if types.Identical(e.t, targetType) {
			store(targetType, dst, e.v)
			return true
		}
		// As(any) bool method
		ms := fr.i.prog.MethodSets.MethodSet(e.t)
		for i := 0; i < ms.Len(); i++ {
			if ms.At(i).Obj().Name() == "As" {
				if r, ok := callMethod(fr, e, "As", []value{target}); ok {
					if b, ok := r.(bool); ok && b {
						return true
					}
				}
			}
		}
		for i := 0; i < ms.Len(); i++ {
			if ms.At(i).Obj().Name() == "Unwrap" {
				r, ok := callMethod(fr, e, "Unwrap", nil)
				if !ok {
					return false
				}
				switch r := r.(type) {
				case iface:
					return walk(r, depth+1)
				case []value:
					for _, x := range r {
						if walk(x.(iface), depth+1) {
							return true
						}
					}
				}
				return false
			}
		}
		return false
	}
	return walk(err, 0)
}

var _ = unsafe.Pointer(nil)
