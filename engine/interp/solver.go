package interp

// Persistent SMT solver process (z3 -in), SMT-LIB2 over a pipe.

import (
	"bufio"
	"fmt"
	"io"
	"os"
	"os/exec"
	"strings"
	"time"
)

type solverProc struct {
	cmd     *exec.Cmd
	in      *bufio.Writer
	inRaw   io.WriteCloser
	out     *bufio.Reader
	epoch   int
	Queries int
	Sat     int
	Unsat   int
	Unknown int
	Spent   time.Duration
	dump    io.Writer // optional transcript
	depth   int
	timeout int // ms
	dead    bool // killed after a hard time-out; replaced before the next path
}

var solverEpoch = 0

var SolverBin = "z3"

func newSolver(timeoutMs int) *solverProc {
	bin := SolverBin
	var cmd *exec.Cmd
	switch {
	case strings.Contains(bin, "cvc5"):
		cmd = exec.Command(bin, "--incremental", "--lang=smt2", "--produce-models", fmt.Sprintf("--tlimit-per=%d", timeoutMs))
	default:
		cmd = exec.Command(bin, "-in")
	}
	inRaw, _ := cmd.StdinPipe()
	out, _ := cmd.StdoutPipe()
	cmd.Stderr = os.Stderr
	if err := cmd.Start(); err != nil {
		panic(engineError{"cannot start solver: " + err.Error()})
	}
	solverEpoch++
	s := &solverProc{cmd: cmd, inRaw: inRaw, in: bufio.NewWriterSize(inRaw, 1<<16), out: bufio.NewReaderSize(out, 1<<16), epoch: solverEpoch, timeout: timeoutMs}
	if f := os.Getenv("GOSYM_SMT_DUMP"); f != "" {
		fh, _ := os.Create(fmt.Sprintf("%s.%d.%d.smt2", f, os.Getpid(), s.epoch))
		s.dump = fh
	}
	if strings.Contains(bin, "cvc5") {
		s.send("(set-logic QF_BV)")
		s.send("(set-option :global-declarations true)")
	} else {
		s.send("(set-option :produce-models true)")
		s.send("(set-option :global-declarations true)")
		s.send(fmt.Sprintf("(set-option :timeout %d)", timeoutMs))
	}
	return s
}

func (s *solverProc) close() {
	s.inRaw.Close()
	s.cmd.Process.Kill()
	s.cmd.Wait()
}

func (s *solverProc) send(x string) {
	if s.dead {
		return
	}
	s.in.WriteString(x)
	s.in.WriteByte('\n')
	if s.dump != nil {
		io.WriteString(s.dump, x+"\n")
	}
}

func (s *solverProc) push() { s.send("(push 1)"); s.depth++ }
func (s *solverProc) pop()  { s.send("(pop 1)"); s.depth-- }

func (s *solverProc) assert(t *Term) {
	r := t.ref(s.epoch, s.send)
	s.send("(assert " + r + ")")
}

func (s *solverProc) readLine() string {
	l, err := s.out.ReadString('\n')
	if err != nil {
		panic(engineError{"solver died: " + err.Error()})
	}
	return strings.TrimSpace(l)
}

// check returns "sat", "unsat" or "unknown" (errors are reported as unknown
// after being logged: an "(error" line makes the query inconclusive).
func (s *solverProc) check() string {
	t0 := time.Now()
	s.Queries++
	if s.dead {
		panic(pathTruncated{"solver process was killed after a hard time-out"})
	}
	s.send("(check-sat)")
	s.in.Flush()
	var l string
	// z3's own :timeout is not always honoured (e.g. inside floating-point
	// preprocessing): a hard limit kills the process; the path is truncated
	ans := make(chan string, 1)
	go func() {
		defer func() { recover() }()
		for {
			x := s.readLine()
			if x == "" {
				continue
			}
			ans <- x
			return
		}
	}()
	hard := time.Duration(s.timeout)*4*time.Millisecond + 20*time.Second
	select {
	case l = <-ans:
	case <-time.After(hard):
		s.dead = true
		s.cmd.Process.Kill()
		panic(pathTruncated{fmt.Sprintf("solver did not answer within the hard limit of %v", hard)})
	}
	s.Spent += time.Since(t0)
	switch l {
	case "sat":
		s.Sat++
	case "unsat":
		s.Unsat++
	default:
		if strings.HasPrefix(l, "(error") {
			fmt.Fprintln(os.Stderr, "gosym: solver error:", l)
			// drain possible further lines is not possible without a marker; use echo
			s.send("(echo \"sync\")")
			s.in.Flush()
			for {
				x := s.readLine()
				if strings.Contains(x, "sync") {
					break
				}
			}
		}
		s.Unknown++
		l = "unknown"
	}
	return l
}

// getModel reads values of the given variables after a sat answer.
func (s *solverProc) getModel(vars []*Term, m *model) {
	if len(vars) == 0 {
		return
	}
	var sb strings.Builder
	sb.WriteString("(get-value (")
	for i, v := range vars {
		if i > 0 {
			sb.WriteByte(' ')
		}
		sb.WriteString(v.name)
	}
	sb.WriteString("))")
	s.send(sb.String())
	s.in.Flush()
	// read one balanced s-expression
	var buf strings.Builder
	depth := 0
	started := false
	for {
		r, _, err := s.out.ReadRune()
		if err != nil {
			panic(engineError{"solver died in get-value"})
		}
		buf.WriteRune(r)
		if r == '(' {
			depth++
			started = true
		} else if r == ')' {
			depth--
		}
		if started && depth == 0 {
			break
		}
	}
	txt := buf.String()
	if strings.Contains(txt, "(error") {
		panic(engineError{"solver get-value error: " + txt})
	}
	// tokens: ( ( name value ) ( name value ) ... ) ; value is #x.., #b.., true, false, or (_ bvN W)
	toks := tokenizeSexp(txt)
	i := 0
	for i < len(toks) {
		if toks[i] == "(" && i+2 < len(toks) && toks[i+1] != "(" {
			name := toks[i+1]
			j := i + 2
			var val uint64
			switch {
			case toks[j] == "true":
				val = 1
			case toks[j] == "false":
				val = 0
			case strings.HasPrefix(toks[j], "#x"):
				fmt.Sscanf(toks[j][2:], "%x", &val)
			case strings.HasPrefix(toks[j], "#b"):
				fmt.Sscanf(toks[j][2:], "%b", &val)
			case toks[j] == "(" && j+2 < len(toks) && toks[j+1] == "_":
				fmt.Sscanf(strings.TrimPrefix(toks[j+2], "bv"), "%d", &val)
			default:
				panic(engineError{"cannot parse model value: " + toks[j] + " in " + txt})
			}
			m.vals[name] = val
			i = j + 1
			continue
		}
		i++
	}
	m.cache = map[int]uint64{}
}

func tokenizeSexp(s string) []string {
	var toks []string
	cur := strings.Builder{}
	flush := func() {
		if cur.Len() > 0 {
			toks = append(toks, cur.String())
			cur.Reset()
		}
	}
	for _, r := range s {
		switch r {
		case '(', ')':
			flush()
			toks = append(toks, string(r))
		case ' ', '\n', '\t', '\r':
			flush()
		default:
			cur.WriteRune(r)
		}
	}
	flush()
	return toks
}
