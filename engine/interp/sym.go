package interp

// Symbolic scalars and strings on top of the concrete interpreter.

import (
	"fmt"
	"go/token"
	"go/types"
	"math"
)

// sym is a symbolic scalar of basic kind k (bool or an integer kind).
type sym struct {
	k types.BasicKind
	t *Term
}

// symString is a string of concrete length whose bytes may be symbolic.
type symString struct {
	b []value // each byte or sym{Uint8}
}

func deref(t types.Type) types.Type {
	if p, ok := t.Underlying().(*types.Pointer); ok {
		return p.Elem()
	}
	panic("not a pointer: " + t.String())
}

func isSym(v value) bool {
	switch v.(type) {
	case sym, symString:
		return true
	}
	return false
}

func kindWidth(k types.BasicKind) (w int, signed bool) {
	switch k {
	case types.Bool, types.UntypedBool:
		return 0, false
	case types.Int8:
		return 8, true
	case types.Int16:
		return 16, true
	case types.Int32, types.UntypedRune:
		return 32, true
	case types.Int, types.Int64, types.UntypedInt:
		return 64, true
	case types.Uint8:
		return 8, false
	case types.Uint16:
		return 16, false
	case types.Uint32:
		return 32, false
	case types.Uint, types.Uint64, types.Uintptr:
		return 64, false
	case types.Float32:
		return 32, false
	case types.Float64, types.UntypedFloat:
		return 64, false
	}
	panic(pathTruncated{fmt.Sprintf("unsupported symbolic kind %v", k)})
}

func kindOf(v value) types.BasicKind {
	switch v := v.(type) {
	case sym:
		return v.k
	case bool:
		return types.Bool
	case int:
		return types.Int
	case int8:
		return types.Int8
	case int16:
		return types.Int16
	case int32:
		return types.Int32
	case int64:
		return types.Int64
	case uint:
		return types.Uint
	case uint8:
		return types.Uint8
	case uint16:
		return types.Uint16
	case uint32:
		return types.Uint32
	case uint64:
		return types.Uint64
	case uintptr:
		return types.Uintptr
	case float32:
		return types.Float32
	case float64:
		return types.Float64
	}
	panic(pathTruncated{fmt.Sprintf("unsupported: symbolic operation with operand of type %T", v)})
}

// toTerm lifts a concrete or symbolic scalar to a term.
func toTerm(v value) *Term {
	switch v := v.(type) {
	case sym:
		return v.t
	case bool:
		return boolConst(v)
	}
	switch f := v.(type) {
	case float32:
		return bvConst(uint64(math.Float32bits(f)), 32)
	case float64:
		return bvConst(math.Float64bits(f), 64)
	}
	k := kindOf(v)
	w, signed := kindWidth(k)
	if signed {
		return bvConst(uint64(asInt64(v)), w)
	}
	return bvConst(asUint64(v), w)
}

func isFloatKind(k types.BasicKind) bool {
	return k == types.Float32 || k == types.Float64 || k == types.UntypedFloat
}

// fpBinop: comparisons of IEEE floats (held as their bit patterns); arithmetic
// on symbolic floats is outside the encoding (truncated path).
func fpBinop(op token.Token, k types.BasicKind, x, y value) value {
	w, _ := kindWidth(k)
	a, b := toTerm(x), toTerm(y)
	if a.w != w || b.w != w {
		panic(pathTruncated{"unsupported: float binop on mixed widths"})
	}
	mk := func(o string, p, q *Term) *Term { return tOp(o, 0, w, p, q) }
	switch op {
	case token.EQL:
		return fromTerm(types.Bool, mk("fp.eq", a, b))
	case token.NEQ:
		return fromTerm(types.Bool, tNot(mk("fp.eq", a, b)))
	case token.LSS:
		return fromTerm(types.Bool, mk("fp.lt", a, b))
	case token.LEQ:
		return fromTerm(types.Bool, mk("fp.leq", a, b))
	case token.GTR:
		return fromTerm(types.Bool, mk("fp.lt", b, a))
	case token.GEQ:
		return fromTerm(types.Bool, mk("fp.leq", b, a))
	}
	panic(pathTruncated{"unsupported: arithmetic on symbolic floating-point values (" + op.String() + ")"})
}

// fromTerm lowers a term to a concrete Go value when constant.
func fromTerm(k types.BasicKind, t *Term) value {
	if !t.konst() {
		return sym{k, t}
	}
	switch k {
	case types.Bool, types.UntypedBool:
		return t.c != 0
	case types.Int, types.UntypedInt:
		return int(int64(t.c))
	case types.Int8:
		return int8(t.c)
	case types.Int16:
		return int16(t.c)
	case types.Int32, types.UntypedRune:
		return int32(t.c)
	case types.Int64:
		return int64(t.c)
	case types.Uint:
		return uint(t.c)
	case types.Uint8:
		return uint8(t.c)
	case types.Uint16:
		return uint16(t.c)
	case types.Uint32:
		return uint32(t.c)
	case types.Uint64:
		return t.c
	case types.Uintptr:
		return uintptr(t.c)
	case types.Float32:
		return math.Float32frombits(uint32(t.c))
	case types.Float64, types.UntypedFloat:
		return math.Float64frombits(t.c)
	}
	panic("fromTerm")
}

func cmpTerm(op token.Token, signed bool, a, b *Term) *Term {
	lt, le := "bvult", "bvule"
	if signed {
		lt, le = "bvslt", "bvsle"
	}
	switch op {
	case token.LSS:
		return tOp(lt, 0, 0, a, b)
	case token.LEQ:
		return tOp(le, 0, 0, a, b)
	case token.GTR:
		return tOp(lt, 0, 0, b, a)
	case token.GEQ:
		return tOp(le, 0, 0, b, a)
	}
	panic("cmpTerm")
}

func symBinop(op token.Token, t types.Type, x, y value) value {
	// strings
	if sx, ok := asSymString(x); ok {
		sy, ok2 := asSymString(y)
		if !ok2 {
			panic(pathTruncated{"unsupported: string op with non-string operand"})
		}
		switch op {
		case token.EQL:
			return fromTerm(types.Bool, strEq(sx, sy))
		case token.NEQ:
			return fromTerm(types.Bool, tNot(strEq(sx, sy)))
		case token.ADD:
			return normStr(symString{append(append([]value{}, sx.b...), sy.b...)})
		case token.LSS:
			return fromTerm(types.Bool, strLess(sx, sy))
		case token.GTR:
			return fromTerm(types.Bool, strLess(sy, sx))
		case token.LEQ:
			return fromTerm(types.Bool, tNot(strLess(sy, sx)))
		case token.GEQ:
			return fromTerm(types.Bool, tNot(strLess(sx, sy)))
		}
		panic(pathTruncated{fmt.Sprintf("unsupported: string op %s", op)})
	}
	k := kindOf(x)
	if _, ok := x.(sym); !ok {
		if _, ok := y.(sym); ok && (op != token.SHL && op != token.SHR) {
			k = kindOf(y)
		}
	}
	if isFloatKind(k) {
		return fpBinop(op, k, x, y)
	}
	w, signed := kindWidth(k)
	a := toTerm(x)
	if w == 0 { // bool
		b := toTerm(y)
		switch op {
		case token.EQL:
			return fromTerm(types.Bool, tEq(a, b))
		case token.NEQ:
			return fromTerm(types.Bool, tNot(tEq(a, b)))
		case token.AND, token.LAND:
			return fromTerm(types.Bool, tAnd(a, b))
		case token.OR, token.LOR:
			return fromTerm(types.Bool, tOr(a, b))
		}
		panic(pathTruncated{"unsupported: bool op " + op.String()})
	}
	if op == token.SHL || op == token.SHR {
		var cnt *Term
		if sy, ok := y.(sym); ok {
			cw, csigned := kindWidth(sy.k)
			cnt = sy.t
			if csigned {
				// negative shift count panics in Go
				if eng.decide(tOp("bvslt", 0, 0, cnt, bvConst(0, cw))) {
					panic("runtime error: negative shift amount")
				}
			}
			if cw < w {
				cnt = tZext(cnt, w)
			} else if cw > w {
				big := tOp("bvule", 0, 0, bvConst(uint64(w), cw), cnt)
				cnt = tIte(big, bvConst(uint64(w), w), tExtract(cnt, w-1, 0))
			}
		} else {
			var c uint64
			if u, nonneg := asUnsigned(y); nonneg {
				c = asUint64(u)
			} else {
				panic("runtime error: negative shift amount")
			}
			if c > uint64(w) {
				c = uint64(w)
			}
			cnt = bvConst(c, w)
		}
		o := "bvshl"
		if op == token.SHR {
			o = "bvlshr"
			if signed {
				o = "bvashr"
			}
		}
		return fromTerm(k, tOp(o, w, 0, a, cnt))
	}
	b := toTerm(y)
	if b.w != a.w {
		panic(pathTruncated{fmt.Sprintf("unsupported: binop %s on widths %d/%d", op, a.w, b.w)})
	}
	switch op {
	case token.EQL:
		return fromTerm(types.Bool, tEq(a, b))
	case token.NEQ:
		return fromTerm(types.Bool, tNot(tEq(a, b)))
	case token.LSS, token.LEQ, token.GTR, token.GEQ:
		return fromTerm(types.Bool, cmpTerm(op, signed, a, b))
	case token.ADD:
		return fromTerm(k, tOp("bvadd", w, 0, a, b))
	case token.SUB:
		return fromTerm(k, tOp("bvsub", w, 0, a, b))
	case token.AND:
		return fromTerm(k, tOp("bvand", w, 0, a, b))
	case token.OR:
		return fromTerm(k, tOp("bvor", w, 0, a, b))
	case token.XOR:
		return fromTerm(k, tOp("bvxor", w, 0, a, b))
	case token.MUL:
		return fromTerm(k, tOp("bvmul", w, 0, a, b))
	case token.AND_NOT:
		return fromTerm(k, tOp("bvand", w, 0, a, tOp("bvnot", w, 0, b)))
	case token.QUO, token.REM:
		if !b.konst() {
			if eng.decide(tEq(b, bvConst(0, w))) {
				panic("runtime error: integer divide by zero")
			}
		} else if b.c == 0 {
			panic("runtime error: integer divide by zero")
		}
		o := map[token.Token][2]string{token.QUO: {"bvsdiv", "bvudiv"}, token.REM: {"bvsrem", "bvurem"}}[op]
		if signed {
			return fromTerm(k, tOp(o[0], w, 0, a, b))
		}
		return fromTerm(k, tOp(o[1], w, 0, a, b))
	}
	panic(pathTruncated{fmt.Sprintf("unsupported: symbolic binop %s", op)})
}

func asSymString(v value) (symString, bool) {
	switch v := v.(type) {
	case symString:
		return v, true
	case string:
		b := make([]value, len(v))
		for i := 0; i < len(v); i++ {
			b[i] = v[i]
		}
		return symString{b}, true
	}
	return symString{}, false
}

// normStr returns a Go string if all bytes are concrete.
func normStr(s symString) value {
	buf := make([]byte, len(s.b))
	for i, x := range s.b {
		c, ok := x.(byte)
		if !ok {
			return s
		}
		buf[i] = c
	}
	return string(buf)
}

func strEq(a, b symString) *Term {
	if len(a.b) != len(b.b) {
		return boolConst(false)
	}
	r := boolConst(true)
	for i := range a.b {
		r = tAnd(r, tEq(toTerm(a.b[i]), toTerm(b.b[i])))
	}
	return r
}

func strLess(a, b symString) *Term {
	res := boolConst(false)
	eqPrefix := boolConst(true)
	n := len(a.b)
	if len(b.b) < n {
		n = len(b.b)
	}
	for i := 0; i < n; i++ {
		ai, bi := toTerm(a.b[i]), toTerm(b.b[i])
		res = tOr(res, tAnd(eqPrefix, tOp("bvult", 0, 0, ai, bi)))
		eqPrefix = tAnd(eqPrefix, tEq(ai, bi))
	}
	if len(a.b) < len(b.b) {
		res = tOr(res, eqPrefix)
	}
	return res
}

// eqValue mirrors equals() but may return a symbolic bool.
func eqValue(t types.Type, x, y value) *Term {
	switch x := x.(type) {
	case sym:
		return tEq(x.t, toTerm(y))
	case symString:
		sy, _ := asSymString(y)
		return strEq(x, sy)
	case string:
		if sy, ok := y.(symString); ok {
			sx, _ := asSymString(x)
			return strEq(sx, sy)
		}
	case structure:
		yy := y.(structure)
		st := t.Underlying().(*types.Struct)
		r := boolConst(true)
		for i := 0; i < st.NumFields(); i++ {
			f := st.Field(i)
			if f.Name() == "_" {
				continue
			}
			r = tAnd(r, eqValue(f.Type(), x[i], yy[i]))
		}
		return r
	case array:
		yy := y.(array)
		et := t.Underlying().(*types.Array).Elem()
		r := boolConst(true)
		for i := range x {
			r = tAnd(r, eqValue(et, x[i], yy[i]))
		}
		return r
	case iface:
		yy, ok := y.(iface)
		if !ok {
			panic(pathTruncated{"unsupported: eqValue iface vs non-iface"})
		}
		if !sameType(x.t, yy.t) {
			return boolConst(false)
		}
		if x.t == nil {
			return boolConst(true)
		}
		return eqValue(x.t, x.v, yy.v)
	}
	if _, ok := y.(sym); ok {
		return tEq(toTerm(x), toTerm(y))
	}
	return boolConst(equals(t, x, y))
}

func containsSym(v value) bool {
	switch v := v.(type) {
	case sym, symString:
		return true
	case structure:
		for _, f := range v {
			if containsSym(f) {
				return true
			}
		}
	case array:
		for _, f := range v {
			if containsSym(f) {
				return true
			}
		}
	case iface:
		return containsSym(v.v)
	}
	return false
}

func symConv(dst types.BasicKind, x sym) value {
	sw, ssigned := kindWidth(x.k)
	if isFloatKind(x.k) {
		if isFloatKind(dst) {
			dw, _ := kindWidth(dst)
			if dw == sw {
				return fromTerm(dst, x.t)
			}
			return fromTerm(dst, tOp("f2f", dw, sw, x.t))
		}
		panic(pathTruncated{"unsupported: conversion of a symbolic float to " + types.Typ[dst].String()})
	}
	if isFloatKind(dst) && sw > 0 {
		dw, _ := kindWidth(dst)
		if ssigned {
			return fromTerm(dst, tOp("s2f", dw, sw, x.t))
		}
		return fromTerm(dst, tOp("u2f", dw, sw, x.t))
	}
	switch dst {
	case types.Float32, types.Float64, types.Complex64, types.Complex128, types.String, types.UnsafePointer:
		// fork over the values (only sensible for narrowly constrained terms)
		v := eng.concretize(x.t)
		var c value
		if ssigned {
			c = signExt(v, sw)
		} else {
			c = v
		}
		_ = c
		panic(pathTruncated{"unsupported: conversion of symbolic integer to " + types.Typ[dst].String()})
	}
	dw, _ := kindWidth(dst)
	if sw == 0 || dw == 0 {
		panic(pathTruncated{"unsupported: symConv bool"})
	}
	t := x.t
	switch {
	case dw == sw:
	case dw < sw:
		t = tExtract(t, dw-1, 0)
	case ssigned:
		t = tSext(t, dw)
	default:
		t = tZext(t, dw)
	}
	return fromTerm(dst, t)
}

// symIndex resolves a (possibly symbolic) index against length n: it forks
// in-range / out-of-range first, then over the in-range values.
func symIndex(idx value, n int) int {
	si, ok := idx.(sym)
	if !ok {
		return int(asInt64(idx))
	}
	w, signed := kindWidth(si.k)
	t := si.t
	if w < 64 {
		if signed {
			t = tSext(t, 64)
		} else {
			t = tZext(t, 64)
		}
	}
	inRange := tOp("bvult", 0, 0, t, bvConst(uint64(n), 64))
	if !eng.decide(inRange) {
		panic(fmt.Sprintf("runtime error: index out of range [symbolic] with length %d", n))
	}
	return int(eng.concretize(t))
}

// concretizeValue turns a symbolic scalar into a concrete Go value by forking.
func concretizeValue(v value) value {
	switch v := v.(type) {
	case sym:
		w, _ := kindWidth(v.k)
		if w == 0 {
			return eng.decide(v.t)
		}
		c := eng.concretize(v.t)
		return fromTerm(v.k, bvConst(c, w))
	case symString:
		b := make([]byte, len(v.b))
		for i, x := range v.b {
			b[i] = concretizeValue(x).(byte)
		}
		return string(b)
	}
	return v
}

// symPtr is the address of elems[idx] for a symbolic idx over an
// all-scalar table: loads become ite chains; stores are not supported.
type symPtr struct {
	elems []value
	idx   sym
}

func allScalar(v []value) bool {
	for _, x := range v {
		switch x.(type) {
		case bool, int, int8, int16, int32, int64, uint, uint8, uint16, uint32, uint64, uintptr, sym:
		default:
			return false
		}
	}
	return len(v) > 0
}

func (p symPtr) load() value {
	k := kindOf(p.elems[0])
	w, _ := kindWidth(p.idx.k)
	res := toTerm(p.elems[len(p.elems)-1])
	for i := len(p.elems) - 2; i >= 0; i-- {
		res = tIte(tEq(p.idx.t, bvConst(uint64(i), w)), toTerm(p.elems[i]), res)
	}
	return fromTerm(k, res)
}

// ---- write monitor (C20) ----

func freezeValue(v value, seen map[*value]string, path string, depth int) {
	if depth > 64 {
		return
	}
	switch v := v.(type) {
	case *value:
		if v == nil {
			return
		}
		if _, ok := seen[v]; ok {
			return
		}
		seen[v] = path
		freezeValue(*v, seen, path+"*", depth+1)
	case structure:
		for i := range v {
			seen[&v[i]] = fmt.Sprintf("%s.f%d", path, i)
			freezeValue(v[i], seen, fmt.Sprintf("%s.f%d", path, i), depth+1)
		}
	case array:
		for i := range v {
			seen[&v[i]] = fmt.Sprintf("%s[%d]", path, i)
			freezeValue(v[i], seen, fmt.Sprintf("%s[%d]", path, i), depth+1)
		}
	case []value:
		full := v[:cap(v)]
		for i := range full {
			if _, ok := seen[&full[i]]; ok {
				continue
			}
			seen[&full[i]] = fmt.Sprintf("%s[%d]", path, i)
			freezeValue(full[i], seen, fmt.Sprintf("%s[%d]", path, i), depth+1)
		}
	case iface:
		freezeValue(v.v, seen, path, depth+1)
	case *omap:
		if v == nil {
			return
		}
		v.frozen = path
		for _, en := range v.entries {
			if !en.deleted {
				freezeValue(en.val, seen, path+"{}", depth+1)
			}
		}
	case *closure:
		for i, b := range v.Env {
			freezeValue(b, seen, fmt.Sprintf("%s.env%d", path, i), depth+1)
		}
	}
}
