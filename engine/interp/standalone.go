package interp

// Fallback for queries the incremental solver gives up on: the same query as
// a standalone script, decided by fresh non-incremental solver processes
// (full preprocessing / bit-blasting), tried in turn: z3-new, cvc5, z3.

import (
	"fmt"
	"os"
	"os/exec"
	"path/filepath"
	"strings"
	"time"
)

var StandaloneTimeoutS = 30
var StandaloneDir = os.TempDir()
var StandaloneStats struct{ Calls, Sat, Unsat, Unknown int }

// CrossEvery > 0: the 1st, the 10th and every CrossEvery-th assertion query
// answered by a worker's incremental z3 is discharged again, as a standalone
// script, by cvc5 and z3-new; a definite answer that differs is an engine
// error (never a pass). The early samples exist because workers are recycled
// between entries: short entries never reach the CrossEvery-th query.
var CrossEvery = 0
var CrossStats struct{ Checked, Agreed, Inconclusive int }
var crossCounter = 0

func (e *Engine) crossCheck(extra []*Term, primary string) {
	if CrossEvery <= 0 || (primary != "sat" && primary != "unsat") {
		return
	}
	crossCounter++
	if crossCounter != 1 && crossCounter != 10 && crossCounter%CrossEvery != 0 {
		return
	}
	var sb strings.Builder
	for _, v := range e.vars {
		sb.WriteString("(declare-const " + v.name + " " + sortOf(v.w) + ")\n")
	}
	done := map[int]bool{}
	var def func(t *Term)
	def = func(t *Term) {
		if _, leaf := t.leafText(); leaf || done[t.id] {
			return
		}
		for _, a := range t.args {
			def(a)
		}
		done[t.id] = true
		sb.WriteString(fmt.Sprintf("(define-fun t%d () %s %s)\n", t.id, sortOf(t.w), t.body()))
	}
	for _, t := range append(append([]*Term{}, e.pc...), extra...) {
		def(t)
		sb.WriteString("(assert " + t.shallowRef() + ")\n")
	}
	sb.WriteString("(check-sat)\n")
	file := filepath.Join(StandaloneDir, fmt.Sprintf("gosym-cross-%d.smt2", os.Getpid()))
	defer os.Remove(file)
	if err := os.WriteFile(file, []byte(sb.String()), 0o644); err != nil {
		return
	}
	CrossStats.Checked++
	definite := 0
	for _, s := range [][]string{{"cvc5", "--tlimit=20000"}, {"z3-new", "-T:20"}} {
		out, _ := exec.Command(s[0], append(s[1:], file)...).Output()
		first := strings.TrimSpace(strings.SplitN(string(out), "\n", 2)[0])
		if first != "sat" && first != "unsat" {
			continue
		}
		definite++
		if first != primary {
			keep := filepath.Join(StandaloneDir, fmt.Sprintf("solver-disagreement-%d.smt2", os.Getpid()))
			os.WriteFile(keep, []byte(sb.String()), 0o644)
			panic(engineError{fmt.Sprintf("solver disagreement: z3 says %s, %s says %s (script kept at %s)", primary, s[0], first, keep)})
		}
	}
	if definite > 0 {
		CrossStats.Agreed++
	} else {
		CrossStats.Inconclusive++
	}
}

func (e *Engine) standalone(extra []*Term) (string, *model) {
	StandaloneStats.Calls++
	var sb strings.Builder
	sb.WriteString("(set-option :produce-models true)\n")
	for _, v := range e.vars {
		sb.WriteString("(declare-const " + v.name + " " + sortOf(v.w) + ")\n")
	}
	done := map[int]bool{}
	var def func(t *Term)
	def = func(t *Term) {
		if _, leaf := t.leafText(); leaf || done[t.id] {
			return
		}
		for _, a := range t.args {
			def(a)
		}
		done[t.id] = true
		sb.WriteString(fmt.Sprintf("(define-fun t%d () %s %s)\n", t.id, sortOf(t.w), t.body()))
	}
	all := append(append([]*Term{}, e.pc...), extra...)
	for _, t := range all {
		def(t)
		sb.WriteString("(assert " + t.shallowRef() + ")\n")
	}
	sb.WriteString("(check-sat)\n")
	file := filepath.Join(StandaloneDir, fmt.Sprintf("gosym-standalone-%d.smt2", os.Getpid()))
	defer os.Remove(file)
	try := func(withModel bool, bin string, args ...string) (string, *model) {
		src := sb.String()
		if withModel && len(e.vars) > 0 {
			var names []string
			for _, v := range e.vars {
				names = append(names, v.name)
			}
			src += "(get-value (" + strings.Join(names, " ") + "))\n"
		}
		if err := os.WriteFile(file, []byte(src), 0o644); err != nil {
			return "unknown", nil
		}
		t0 := time.Now()
		out, _ := exec.Command(bin, append(args, file)...).Output()
		e.sol.Spent += time.Since(t0)
		e.sol.Queries++
		txt := string(out)
		first := strings.TrimSpace(strings.SplitN(txt, "\n", 2)[0])
		switch first {
		case "unsat":
			return "unsat", nil
		case "sat":
			if !withModel || len(e.vars) == 0 {
				return "sat", newModel()
			}
			m := newModel()
			rest := ""
			if i := strings.Index(txt, "\n"); i >= 0 {
				rest = txt[i+1:]
			}
			if strings.Contains(rest, "(error") {
				return "unknown", nil
			}
			if !parseModelText(rest, m) {
				return "unknown", nil
			}
			return "sat", m
		}
		return "unknown", nil
	}
	T := StandaloneTimeoutS
	for _, s := range []struct {
		bin  string
		args []string
	}{
		{"z3-new", []string{fmt.Sprintf("-T:%d", T)}},
		{"cvc5", []string{"--produce-models", fmt.Sprintf("--tlimit=%d", T*1000)}},
		{"z3", []string{fmt.Sprintf("-T:%d", T)}},
	} {
		// without get-value first: an unsat script followed by get-value prints an error line
		r, _ := try(false, s.bin, s.args...)
		if r == "unsat" {
			StandaloneStats.Unsat++
			e.sol.Unsat++
			e.sol.Unknown--
			return "unsat", nil
		}
		if r == "sat" {
			r2, m := try(true, s.bin, s.args...)
			if r2 == "sat" {
				StandaloneStats.Sat++
				e.sol.Sat++
				e.sol.Unknown--
				return "sat", m
			}
		}
	}
	StandaloneStats.Unknown++
	return "unknown", nil
}

func parseModelText(txt string, m *model) bool {
	toks := tokenizeSexp(txt)
	n := 0
	for i := 0; i < len(toks); i++ {
		if toks[i] == "(" && i+2 < len(toks) && toks[i+1] != "(" {
			name := toks[i+1]
			j := i + 2
			var val uint64
			switch {
			case toks[j] == "true":
				val = 1
			case toks[j] == "false":
				val = 0
			case strings.HasPrefix(toks[j], "#x"):
				fmt.Sscanf(toks[j][2:], "%x", &val)
			case strings.HasPrefix(toks[j], "#b"):
				fmt.Sscanf(toks[j][2:], "%b", &val)
			case toks[j] == "(" && j+2 < len(toks) && toks[j+1] == "_":
				fmt.Sscanf(strings.TrimPrefix(toks[j+2], "bv"), "%d", &val)
			default:
				return false
			}
			m.vals[name] = val
			n++
			i = j
		}
	}
	m.cache = map[int]uint64{}
	return n > 0
}
