// Copyright 2013 The Go Authors. All rights reserved.
// Use of this source code is governed by a BSD-style
// license that can be found in the LICENSE file.

package interp

// Insertion-ordered map used for every Go map of the interpreted program
// (replaces upstream's map[value]value / *hashmap pair).
//
//   - iteration order is insertion order, so that re-executing a path is
//     deterministic (Go's randomised map iteration order is NOT explored);
//   - keys may be symbolic: a lookup compares the key with the candidate
//     entries and forks (Engine.decide) on every comparison that is neither
//     constantly true nor constantly false.

import (
	"go/types"
)

type oentry struct {
	key     value
	val     value
	deleted bool
	symKey  bool
}

type omap struct {
	keyType types.Type
	entries []*oentry
	idx     map[interface{}][]int // concrete key hash -> entry positions
	symPos  []int                 // positions of entries with symbolic keys
	live    int
	frozen  string // non-empty: write monitor label
}

type hashKey struct{ h int }

func makeMap(kt types.Type, reserve int64) value {
	return &omap{keyType: kt, idx: map[interface{}][]int{}}
}

// hk returns a host-hashable digest of a concrete key.
func (m *omap) hk(k value) interface{} {
	switch k := k.(type) {
	case bool, int, int8, int16, int32, int64, uint, uint8, uint16, uint32, uint64, uintptr, float32, float64, complex64, complex128, string, *value, chan value:
		return k
	}
	return hashKey{hash(m.keyType, m.keyType, k)}
}

// find returns the entry for key k, forking on symbolic comparisons.
func (m *omap) find(k value) *oentry {
	if m == nil {
		return nil
	}
	if !containsSym(k) {
		for _, p := range m.idx[m.hk(k)] {
			en := m.entries[p]
			if !en.deleted && equals(m.keyType, en.key, k) {
				return en
			}
		}
		for _, p := range m.symPos {
			en := m.entries[p]
			if en.deleted {
				continue
			}
			if eng.decide(eqValue(m.keyType, en.key, k)) {
				return en
			}
		}
		return nil
	}
	for _, en := range m.entries {
		if en.deleted {
			continue
		}
		c := eqValue(m.keyType, en.key, k)
		if c.konst() {
			if c.c != 0 {
				return en
			}
			continue
		}
		if eng.decide(c) {
			return en
		}
	}
	return nil
}

func (m *omap) lookup(k value) (value, bool) {
	if en := m.find(k); en != nil {
		return en.val, true
	}
	return nil, false
}

func (m *omap) insert(k, v value) {
	if m == nil {
		panic("assignment to entry in nil map")
	}
	if m.frozen != "" && eng != nil {
		eng.frozenHit("map update in " + m.frozen)
	}
	if en := m.find(k); en != nil {
		en.val = v
		return
	}
	en := &oentry{key: k, val: v}
	pos := len(m.entries)
	m.entries = append(m.entries, en)
	if containsSym(k) {
		en.symKey = true
		m.symPos = append(m.symPos, pos)
	} else {
		h := m.hk(k)
		m.idx[h] = append(m.idx[h], pos)
	}
	m.live++
}

func (m *omap) delete(k value) {
	if m == nil {
		return
	}
	if m.frozen != "" && eng != nil {
		eng.frozenHit("map delete in " + m.frozen)
	}
	if en := m.find(k); en != nil {
		en.deleted = true
		m.live--
	}
}

func (m *omap) len() int {
	if m == nil {
		return 0
	}
	return m.live
}

// omapIter iterates in insertion order; entries inserted during iteration
// are visited (allowed by the Go specification).
type omapIter struct {
	m   *omap
	pos int
}

func (it *omapIter) next() tuple {
	if it.m != nil {
		for it.pos < len(it.m.entries) {
			en := it.m.entries[it.pos]
			it.pos++
			if !en.deleted {
				return []value{true, en.key, en.val}
			}
		}
	}
	return []value{false, nil, nil}
}
