package tp

import "go/types"

func MustDeref(t types.Type) types.Type {
	if p, ok := t.Underlying().(*types.Pointer); ok {
		return p.Elem()
	}
	panic("not a pointer: " + t.String())
}
