package interp

// Hash-consed SMT terms over Bool and fixed-width bit-vectors, with constant
// folding and a concrete evaluator (used to evaluate terms under a solver
// model without another solver round trip).

import (
	"fmt"
	"math"
	"strconv"
	"strings"
)

type Term struct {
	id    int
	op    string // var const not and or = ite bv* extract zext sext concat ...
	w     int    // 0 = Bool, otherwise BitVec width (1..64)
	args  []*Term
	c     uint64 // constant payload (masked); Bool: 0/1
	name  string // variable name
	p     int    // extract: low bit; zext/sext: source width
	epoch int    // solver epoch in which a define-fun for this term was sent
}

func (t *Term) konst() bool { return t.op == "const" }

type termTable struct {
	tab    map[string]*Term
	nextID int
}

var terms = &termTable{tab: map[string]*Term{}}

func (tt *termTable) mk(op string, w int, c uint64, name string, p int, args ...*Term) *Term {
	var sb strings.Builder
	sb.WriteString(op)
	sb.WriteByte('/')
	sb.WriteString(strconv.Itoa(w))
	sb.WriteByte('/')
	sb.WriteString(strconv.FormatUint(c, 16))
	sb.WriteByte('/')
	sb.WriteString(name)
	sb.WriteByte('/')
	sb.WriteString(strconv.Itoa(p))
	for _, a := range args {
		sb.WriteByte(',')
		sb.WriteString(strconv.Itoa(a.id))
	}
	k := sb.String()
	if t, ok := tt.tab[k]; ok {
		return t
	}
	tt.nextID++
	t := &Term{id: tt.nextID, op: op, w: w, c: c, name: name, p: p, args: args}
	tt.tab[k] = t
	return t
}

func mask(w int) uint64 {
	if w >= 64 {
		return ^uint64(0)
	}
	return (uint64(1) << uint(w)) - 1
}

func signExt(v uint64, w int) int64 {
	if w < 64 && v&(1<<uint(w-1)) != 0 {
		v |= ^mask(w)
	}
	return int64(v)
}

func bvConst(c uint64, w int) *Term {
	if w <= 0 {
		panic("bvConst width")
	}
	return terms.mk("const", w, c&mask(w), "", 0)
}

func boolConst(b bool) *Term {
	if b {
		return terms.mk("const", 0, 1, "", 0)
	}
	return terms.mk("const", 0, 0, "", 0)
}

func tVar(name string, w int) *Term { return terms.mk("var", w, 0, name, 0) }

func tNot(a *Term) *Term {
	if a.konst() {
		return boolConst(a.c == 0)
	}
	if a.op == "not" {
		return a.args[0]
	}
	return terms.mk("not", 0, 0, "", 0, a)
}

func tAnd(a, b *Term) *Term {
	if a.konst() {
		if a.c == 0 {
			return a
		}
		return b
	}
	if b.konst() {
		if b.c == 0 {
			return b
		}
		return a
	}
	if a == b {
		return a
	}
	if (a.op == "not" && a.args[0] == b) || (b.op == "not" && b.args[0] == a) {
		return boolConst(false)
	}
	return terms.mk("and", 0, 0, "", 0, a, b)
}

func tOr(a, b *Term) *Term {
	if a.konst() {
		if a.c != 0 {
			return a
		}
		return b
	}
	if b.konst() {
		if b.c != 0 {
			return b
		}
		return a
	}
	if a == b {
		return a
	}
	if (a.op == "not" && a.args[0] == b) || (b.op == "not" && b.args[0] == a) {
		return boolConst(true)
	}
	return terms.mk("or", 0, 0, "", 0, a, b)
}

func tImplies(a, b *Term) *Term { return tOr(tNot(a), b) }

func tEq(a, b *Term) *Term {
	if a.w != b.w {
		panic(fmt.Sprintf("tEq width mismatch %d %d (%s vs %s)", a.w, b.w, a.op, b.op))
	}
	if a.konst() && b.konst() {
		return boolConst(a.c == b.c)
	}
	if a == b {
		return boolConst(true)
	}
	if a.w == 0 {
		// Bool equality with constant
		if a.konst() {
			a, b = b, a
		}
		if b.konst() {
			if b.c != 0 {
				return a
			}
			return tNot(a)
		}
	}
	if a.konst() { // constant on the right
		a, b = b, a
	}
	// (zext x) == const: decide on the high bits
	if b.konst() && a.op == "zext" {
		if b.c&^mask(a.p) != 0 {
			return boolConst(false)
		}
		return tEq(a.args[0], bvConst(b.c, a.p))
	}
	if b.konst() && a.op == "ite" && a.args[1].konst() && a.args[2].konst() {
		x, y := a.args[1].c == b.c, a.args[2].c == b.c
		switch {
		case x && y:
			return boolConst(true)
		case x:
			return a.args[0]
		case y:
			return tNot(a.args[0])
		default:
			return boolConst(false)
		}
	}
	if a.id > b.id && !b.konst() {
		a, b = b, a
	}
	return terms.mk("=", 0, 0, "", 0, a, b)
}

func tIte(c, a, b *Term) *Term {
	if a.w != b.w {
		panic("tIte width mismatch")
	}
	if c.konst() {
		if c.c != 0 {
			return a
		}
		return b
	}
	if a == b {
		return a
	}
	if a.w == 0 {
		if a.konst() && b.konst() {
			if a.c != 0 {
				return c
			}
			return tNot(c)
		}
		if a.konst() {
			if a.c != 0 {
				return tOr(c, b)
			}
			return tAnd(tNot(c), b)
		}
		if b.konst() {
			if b.c != 0 {
				return tOr(tNot(c), a)
			}
			return tAnd(c, a)
		}
	}
	return terms.mk("ite", a.w, 0, "", 0, c, a, b)
}

// evalOp computes op on constant operands.
func evalOp(op string, w int, p int, a []uint64, aw []int) uint64 {
	m := mask(w)
	switch op {
	case "not":
		return 1 - a[0]
	case "and":
		return a[0] & a[1]
	case "or":
		return a[0] | a[1]
	case "=":
		if a[0] == a[1] {
			return 1
		}
		return 0
	case "ite":
		if a[0] != 0 {
			return a[1]
		}
		return a[2]
	case "bvadd":
		return (a[0] + a[1]) & m
	case "bvsub":
		return (a[0] - a[1]) & m
	case "bvmul":
		return (a[0] * a[1]) & m
	case "bvand":
		return a[0] & a[1]
	case "bvor":
		return a[0] | a[1]
	case "bvxor":
		return a[0] ^ a[1]
	case "bvnot":
		return ^a[0] & m
	case "bvneg":
		return (-a[0]) & m
	case "bvshl":
		if a[1] >= uint64(w) {
			return 0
		}
		return (a[0] << a[1]) & m
	case "bvlshr":
		if a[1] >= uint64(w) {
			return 0
		}
		return a[0] >> a[1]
	case "bvashr":
		s := signExt(a[0], w)
		if a[1] >= uint64(w) {
			if s < 0 {
				return m
			}
			return 0
		}
		return uint64(s>>a[1]) & m
	case "bvudiv":
		if a[1] == 0 {
			return m
		}
		return a[0] / a[1]
	case "bvurem":
		if a[1] == 0 {
			return a[0]
		}
		return a[0] % a[1]
	case "bvsdiv":
		x, y := signExt(a[0], w), signExt(a[1], w)
		if y == 0 {
			if x < 0 {
				return 1
			}
			return m
		}
		if y == -1 {
			return uint64(-x) & m
		}
		return uint64(x/y) & m
	case "bvsrem":
		x, y := signExt(a[0], w), signExt(a[1], w)
		if y == 0 {
			return a[0]
		}
		if y == -1 {
			return 0
		}
		return uint64(x%y) & m
	case "bvult":
		return b2u(a[0] < a[1])
	case "bvule":
		return b2u(a[0] <= a[1])
	case "bvslt":
		return b2u(signExt(a[0], aw[0]) < signExt(a[1], aw[1]))
	case "bvsle":
		return b2u(signExt(a[0], aw[0]) <= signExt(a[1], aw[1]))
	case "extract": // bits [p+w-1 : p]
		return (a[0] >> uint(p)) & m
	case "zext":
		return a[0]
	case "sext":
		return uint64(signExt(a[0], aw[0])) & m
	case "concat":
		return ((a[0] << uint(aw[1])) | a[1]) & m
	case "fp.lt", "fp.leq", "fp.eq":
		x, y := bitsToFloat(a[0], p), bitsToFloat(a[1], p)
		switch op {
		case "fp.lt":
			return b2u(x < y)
		case "fp.leq":
			return b2u(x <= y)
		}
		return b2u(x == y)
	case "f2f": // p = source width, w = destination width
		return floatToBits(bitsToFloat(a[0], p), w)
	case "s2f":
		if w == 32 {
			return uint64(math.Float32bits(float32(signExt(a[0], p))))
		}
		return math.Float64bits(float64(signExt(a[0], p)))
	case "u2f":
		if w == 32 {
			return uint64(math.Float32bits(float32(a[0])))
		}
		return math.Float64bits(float64(a[0]))
	}
	panic("evalOp: " + op)
}

func bitsToFloat(b uint64, w int) float64 {
	if w == 32 {
		return float64(math.Float32frombits(uint32(b)))
	}
	return math.Float64frombits(b)
}

func floatToBits(f float64, w int) uint64 {
	if w == 32 {
		return uint64(math.Float32bits(float32(f)))
	}
	return math.Float64bits(f)
}

func fpSort(w int) string {
	if w == 32 {
		return "(_ to_fp 8 24)"
	}
	return "(_ to_fp 11 53)"
}

func b2u(b bool) uint64 {
	if b {
		return 1
	}
	return 0
}

// tOp builds a bit-vector operation; result width w (0 for predicates).
func tOp(op string, w int, p int, args ...*Term) *Term {
	all := true
	for _, a := range args {
		if !a.konst() {
			all = false
			break
		}
	}
	if all {
		av := make([]uint64, len(args))
		aw := make([]int, len(args))
		for i, a := range args {
			av[i], aw[i] = a.c, a.w
		}
		v := evalOp(op, w, p, av, aw)
		if w == 0 {
			return boolConst(v != 0)
		}
		return bvConst(v, w)
	}
	// light algebraic simplification
	switch op {
	case "bvadd", "bvor", "bvxor":
		if args[0].konst() && args[0].c == 0 {
			return args[1]
		}
		if args[1].konst() && args[1].c == 0 {
			return args[0]
		}
	case "bvsub", "bvshl", "bvlshr", "bvashr":
		if args[1].konst() && args[1].c == 0 {
			return args[0]
		}
	case "bvand":
		if args[0].konst() && args[0].c == 0 {
			return args[0]
		}
		if args[1].konst() && args[1].c == 0 {
			return args[1]
		}
		if args[1].konst() && args[1].c == mask(w) {
			return args[0]
		}
		if args[0].konst() && args[0].c == mask(w) {
			return args[1]
		}
	case "bvmul":
		if args[0].konst() && args[0].c == 1 {
			return args[1]
		}
		if args[1].konst() && args[1].c == 1 {
			return args[0]
		}
	case "bvult":
		if args[1].konst() && args[1].c == 0 {
			return boolConst(false)
		}
		if args[0].op == "zext" && args[1].konst() && args[1].c > mask(args[0].p) {
			return boolConst(true)
		}
	case "bvule":
		if args[0].konst() && args[0].c == 0 {
			return boolConst(true)
		}
		if args[0].op == "zext" && args[1].konst() && args[1].c >= mask(args[0].p) {
			return boolConst(true)
		}
	case "extract":
		a := args[0]
		if p == 0 && w == a.w {
			return a
		}
		if (a.op == "zext" || a.op == "sext") && p == 0 && w <= a.p {
			if w == a.p {
				return a.args[0]
			}
			return tOp("extract", w, 0, a.args[0])
		}
		if a.op == "zext" && p >= a.p {
			return bvConst(0, w)
		}
	case "zext", "sext":
		if w == args[0].w {
			return args[0]
		}
		if op == "zext" && args[0].op == "zext" {
			return tOp("zext", w, args[0].p, args[0].args[0])
		}
	}
	return terms.mk(op, w, 0, "", p, args...)
}

func tExtract(a *Term, hi, lo int) *Term { return tOp("extract", hi-lo+1, lo, a) }
func tZext(a *Term, w int) *Term         { return tOp("zext", w, a.w, a) }
func tSext(a *Term, w int) *Term         { return tOp("sext", w, a.w, a) }

// ---- SMT-LIB emission ----

func sortOf(w int) string {
	if w == 0 {
		return "Bool"
	}
	return fmt.Sprintf("(_ BitVec %d)", w)
}

func (t *Term) leafText() (string, bool) {
	switch t.op {
	case "var":
		return t.name, true
	case "const":
		if t.w == 0 {
			if t.c != 0 {
				return "true", true
			}
			return "false", true
		}
		return fmt.Sprintf("(_ bv%d %d)", t.c, t.w), true
	}
	return "", false
}

// ref returns the text by which t is referenced in the solver, emitting
// define-funs for t and its sub-terms as needed (via emit).
func (t *Term) ref(epoch int, emit func(string)) string {
	if s, ok := t.leafText(); ok {
		return s
	}
	name := "t" + strconv.Itoa(t.id)
	if t.epoch == epoch {
		return name
	}
	// iterative post-order to avoid deep recursion on long chains
	type fr struct {
		t *Term
		i int
	}
	stack := []fr{{t, 0}}
	for len(stack) > 0 {
		top := &stack[len(stack)-1]
		if top.i < len(top.t.args) {
			a := top.t.args[top.i]
			top.i++
			if _, leaf := a.leafText(); !leaf && a.epoch != epoch {
				stack = append(stack, fr{a, 0})
			}
			continue
		}
		x := top.t
		stack = stack[:len(stack)-1]
		if x.epoch == epoch {
			continue
		}
		x.epoch = epoch
		emit("(define-fun t" + strconv.Itoa(x.id) + " () " + sortOf(x.w) + " " + x.body() + ")")
	}
	return name
}

func (t *Term) shallowRef() string {
	if s, ok := t.leafText(); ok {
		return s
	}
	return "t" + strconv.Itoa(t.id)
}

func (t *Term) fpBody(ref func(*Term) string) (string, bool) {
	switch t.op {
	case "fp.lt", "fp.leq", "fp.eq":
		return fmt.Sprintf("(%s (%s %s) (%s %s))", t.op, fpSort(t.p), ref(t.args[0]), fpSort(t.p), ref(t.args[1])), true
	case "f2f":
		return fmt.Sprintf("(fp.to_ieee_bv (%s RNE (%s %s)))", fpSort(t.w), fpSort(t.p), ref(t.args[0])), true
	case "s2f":
		return fmt.Sprintf("(fp.to_ieee_bv (%s RNE %s))", fpSort(t.w), ref(t.args[0])), true
	case "u2f":
		return fmt.Sprintf("(fp.to_ieee_bv (%s RNE %s))", strings.Replace(fpSort(t.w), "to_fp", "to_fp_unsigned", 1), ref(t.args[0])), true
	}
	return "", false
}

func (t *Term) body() string {
	if s, ok := t.fpBody((*Term).shallowRef); ok {
		return s
	}
	var sb strings.Builder
	sb.WriteByte('(')
	switch t.op {
	case "extract":
		fmt.Fprintf(&sb, "(_ extract %d %d)", t.p+t.w-1, t.p)
	case "zext":
		fmt.Fprintf(&sb, "(_ zero_extend %d)", t.w-t.p)
	case "sext":
		fmt.Fprintf(&sb, "(_ sign_extend %d)", t.w-t.p)
	default:
		sb.WriteString(t.op)
	}
	for _, a := range t.args {
		sb.WriteByte(' ')
		sb.WriteString(a.shallowRef())
	}
	sb.WriteByte(')')
	return sb.String()
}

// String renders the term as a closed SMT-LIB expression (debugging / dumps).
func (t *Term) String() string {
	if s, ok := t.leafText(); ok {
		return s
	}
	if s, ok := t.fpBody((*Term).String); ok {
		return s
	}
	var sb strings.Builder
	sb.WriteByte('(')
	switch t.op {
	case "extract":
		fmt.Fprintf(&sb, "(_ extract %d %d)", t.p+t.w-1, t.p)
	case "zext":
		fmt.Fprintf(&sb, "(_ zero_extend %d)", t.w-t.p)
	case "sext":
		fmt.Fprintf(&sb, "(_ sign_extend %d)", t.w-t.p)
	default:
		sb.WriteString(t.op)
	}
	for _, a := range t.args {
		sb.WriteByte(' ')
		sb.WriteString(a.String())
	}
	sb.WriteByte(')')
	return sb.String()
}

// ---- evaluation under a model ----

type model struct {
	vals  map[string]uint64
	cache map[int]uint64
}

func newModel() *model { return &model{vals: map[string]uint64{}, cache: map[int]uint64{}} }

func (m *model) set(name string, v uint64) {
	m.vals[name] = v
	m.cache = map[int]uint64{}
}

func (m *model) eval(t *Term) uint64 {
	switch t.op {
	case "const":
		return t.c
	case "var":
		return m.vals[t.name] & maskB(t.w)
	}
	if v, ok := m.cache[t.id]; ok {
		return v
	}
	av := make([]uint64, len(t.args))
	aw := make([]int, len(t.args))
	if t.op == "ite" {
		var v uint64
		if m.eval(t.args[0]) != 0 {
			v = m.eval(t.args[1])
		} else {
			v = m.eval(t.args[2])
		}
		m.cache[t.id] = v
		return v
	}
	for i, a := range t.args {
		av[i], aw[i] = m.eval(a), a.w
	}
	v := evalOp(t.op, t.w, t.p, av, aw)
	m.cache[t.id] = v
	return v
}

func maskB(w int) uint64 {
	if w == 0 {
		return 1
	}
	return mask(w)
}
