package interp

import (
	"fmt"
	"go/types"
)

// intrinsic implements the harness API (functions named v[A-Z]… without
// receiver). Returning ok=false lets the interpreter run the Go body.
func (e *Engine) intrinsic(fr *frame, name string, args []value) (value, bool) {
	str := func(i int) string {
		s, ok := args[i].(string)
		if !ok {
			panic(engineError{name + ": tag must be a concrete string"})
		}
		return s
	}
	scalar := func(k types.BasicKind) value {
		w, _ := kindWidth(k)
		return sym{k, e.fresh(str(0), w)}
	}
	switch name {
	case "vBool":
		return scalar(types.Bool), true
	case "vU8":
		return scalar(types.Uint8), true
	case "vU16":
		return scalar(types.Uint16), true
	case "vU32":
		return scalar(types.Uint32), true
	case "vU64":
		return scalar(types.Uint64), true
	case "vI8":
		return scalar(types.Int8), true
	case "vI16":
		return scalar(types.Int16), true
	case "vI32":
		return scalar(types.Int32), true
	case "vI64":
		return scalar(types.Int64), true
	case "vInt":
		return scalar(types.Int), true
	case "vUint":
		return scalar(types.Uint), true
	case "vF64":
		return scalar(types.Float64), true
	case "vF32":
		return scalar(types.Float32), true
	case "vString", "vBytes":
		n := int(asInt64(args[1]))
		b := make([]value, n)
		for i := range b {
			b[i] = sym{types.Uint8, e.fresh(fmt.Sprintf("%s_%d", str(0), i), 8)}
		}
		if name == "vBytes" {
			return b, true
		}
		return normStr(symString{b}), true
	case "vChoose":
		n := int(asInt64(args[1]))
		if n <= 0 {
			panic(pathAbort{"vChoose over empty range"})
		}
		v := e.fresh(str(0), 64)
		e.assume(tOp("bvult", 0, 0, v, bvConst(uint64(n), 64)))
		return int(e.concretize(v)), true
	case "vAssume":
		e.assume(toTerm(args[0]))
		return nil, true
	case "vAssert":
		e.assert(toTerm(args[0]), str(1))
		return nil, true
	case "vReach":
		e.reach = append(e.reach, str(0))
		e.events = append(e.events, event{kind: "R", tag: str(0)})
		return nil, true
	case "vKnown":
		e.pending = append(e.pending, knownRegion{id: str(0), cond: toTerm(args[1])})
		return nil, true
	case "vParam":
		v, ok := e.Params[str(0)]
		if !ok {
			panic(engineError{"vParam: no parameter " + str(0)})
		}
		return v, true
	case "vAnd":
		return fromTerm(types.Bool, tAnd(toTerm(args[0]), toTerm(args[1]))), true
	case "vOr":
		return fromTerm(types.Bool, tOr(toTerm(args[0]), toTerm(args[1]))), true
	case "vNot":
		return fromTerm(types.Bool, tNot(toTerm(args[0]))), true
	case "vImplies":
		return fromTerm(types.Bool, tImplies(toTerm(args[0]), toTerm(args[1]))), true
	case "vIff":
		return fromTerm(types.Bool, tEq(toTerm(args[0]), toTerm(args[1]))), true
	case "vIteBool", "vIteU8", "vIteI64", "vIteInt", "vIteU64":
		c := toTerm(args[0])
		a, b := toTerm(args[1]), toTerm(args[2])
		k := kindOf(args[1])
		if _, ok := args[1].(sym); !ok {
			k = kindOf(args[2])
		}
		return fromTerm(k, tIte(c, a, b)), true
	case "vIteStr":
		// strings of equal length only
		c := toTerm(args[0])
		if c.konst() {
			if c.c != 0 {
				return args[1], true
			}
			return args[2], true
		}
		a, _ := asSymString(args[1])
		b, _ := asSymString(args[2])
		if len(a.b) != len(b.b) {
			if e.decide(c) {
				return args[1], true
			}
			return args[2], true
		}
		out := make([]value, len(a.b))
		for i := range out {
			out[i] = fromTerm(types.Uint8, tIte(c, toTerm(a.b[i]), toTerm(b.b[i])))
		}
		return normStr(symString{out}), true
	case "vEqBytes":
		a, b := args[0].([]value), args[1].([]value)
		return fromTerm(types.Bool, strEq(symString{a}, symString{b})), true
	case "vEqStr":
		a, _ := asSymString(args[0])
		b, _ := asSymString(args[1])
		return fromTerm(types.Bool, strEq(a, b)), true
	case "vNoPanic":
		return e.noPanic(fr, args[0]), true
	case "vPanicMsg":
		return e.lastPanic, true
	case "vConcI64":
		return asInt64(args[0]), true
	case "vConcInt":
		return int(asInt64(args[0])), true
	case "vConcBool":
		if s, ok := args[0].(sym); ok {
			return e.decide(s.t), true
		}
		return args[0], true
	case "vConcStr":
		return concretizeValue(args[0]), true
	case "vIsSymbolicEngine":
		return true, true
	case "vNote":
		e.events = append(e.events, event{kind: "N", tag: str(0)})
		return nil, true
	case "vLog":
		e.logs = append(e.logs, str(0)+"="+toString(args[1]))
		return nil, true
	case "vSkip":
		panic(pathAbort{"vSkip: " + str(0)})
	case "vClockSec":
		// symbolic wall clock: base second in [0, 2^40], nanosecond in [0, 1e9)
		base := e.fresh("clock_sec", 64)
		ns := e.fresh("clock_nsec", 64)
		e.assume(tOp("bvule", 0, 0, base, bvConst(1<<40, 64)))
		e.assume(tOp("bvult", 0, 0, ns, bvConst(1000000000, 64)))
		e.nowSet = true
		e.nowSec, e.nowNsec = fromTerm(types.Int64, base), fromTerm(types.Int64, ns)
		return e.nowSec, true
	case "vNow":
		e.nowSet = true
		e.nowSec, e.nowNsec = args[0], args[1]
		return nil, true
	case "vFreeze":
		if e.frozen == nil {
			e.frozen = map[*value]string{}
		}
		for i, a := range args[0].([]value) {
			freezeValue(a, e.frozen, fmt.Sprintf("root%d", i), 0)
		}
		return nil, true
	case "vThaw":
		e.frozen = nil
		return nil, true
	case "vFrozenWrites":
		return len(e.frozenHits), true
	case "vBudget":
		e.budget = asInt64(args[0])
		e.budgetBase = e.instrs
		return nil, true
	case "vMeasureAlloc":
		return e.measureAlloc(fr, args[0]), true
	case "vMaxAlloc":
		return int(e.maxAlloc), true
	case "vResetAlloc":
		e.maxAlloc = 0
		return nil, true
	}
	return nil, false
}

// noPanic runs the closure f and reports whether it returned normally.
func (e *Engine) noPanic(fr *frame, f value) (ok value) {
	ok = true
	func() {
		defer func() {
			if r := recover(); r != nil {
				if !isTargetPanic(r) {
					panic(r)
				}
				e.lastPanic = describePanic(r)
				ok = false
			}
		}()
		call(fr.i, fr, 0, f, nil)
	}()
	return ok
}

// measureAlloc runs the closure f and returns the size (elements) of the
// largest single slice allocation it made. An allocation too large to
// materialise ends f there and its (possibly symbolic) size is returned.
func (e *Engine) measureAlloc(fr *frame, f value) (n value) {
	save, saveM := e.maxAlloc, e.measuring
	e.maxAlloc, e.measuring = 0, true
	defer func() { e.measuring = saveM }()
	func() {
		defer func() {
			if r := recover(); r != nil {
				if c, ok := r.(allocCut); ok {
					n = c.size
					return
				}
				panic(r)
			}
		}()
		call(fr.i, fr, 0, f, nil)
		n = int(e.maxAlloc)
	}()
	if save > e.maxAlloc {
		e.maxAlloc = save
	}
	return n
}
