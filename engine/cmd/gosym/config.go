package main

import (
	"bytes"
	"encoding/json"
	"fmt"
	"go/ast"
	"go/parser"
	"go/printer"
	"go/token"
	"os"
	"path/filepath"
	"sort"
	"strings"
)

// repoDir is /repo; GOSYM_REPO (development aid, used by tools/run_seed.sh to
// try a seeded change in a scratch worktree) points the checks at a copy.
var repoDir = func() string {
	if d := os.Getenv("GOSYM_REPO"); d != "" {
		return d
	}
	return "/repo"
}()

var verifDir = "/verif"

type HarnessFile struct {
	Src string `json:"src"` // relative to /verif
	Dst string `json:"dst"` // relative to /repo
}

type Stub struct {
	File string `json:"file"` // relative to /repo, or absolute
	Recv string `json:"recv,omitempty"`
	Func string `json:"func,omitempty"`
	// Call, e.g. "elliptic.UnmarshalCompressed": every call pkg.Name(...) in
	// File goes through the variable VCall_pkg_Name (initialised to the real
	// function) which a harness may reassign.
	Call string `json:"call,omitempty"`
}

type Entry struct {
	Pkg      string                    `json:"pkg"`
	Func     string                    `json:"func"`
	Params   map[string]map[string]int `json:"params"` // tier -> name -> value
	Reach    []string                  `json:"reach"`
	MaxPaths map[string]int            `json:"max_paths"`
	Tiers    []string                  `json:"tiers,omitempty"` // default both
	Note     string                    `json:"note,omitempty"`
}

type CheckConfig struct {
	Property    string            `json:"property"`
	Harness     []HarnessFile     `json:"harness"`
	Stubs       []Stub            `json:"stubs"`
	Entries     []Entry           `json:"entries"`
	Assumptions []string          `json:"assumptions"`
	Bounds      map[string]string `json:"bounds"`
	Outside     []string          `json:"outside_claim"`
	MaxInstrs   int64             `json:"max_instrs,omitempty"`
	TimeoutMs   map[string]int    `json:"solver_timeout_ms,omitempty"`
	ReplayPaths map[string]int    `json:"replay_paths,omitempty"`
	Manifest    map[string]string `json:"manifest,omitempty"`
}

type KnownFinding struct {
	ID       string `json:"id"`
	Property string `json:"property"`
	Status   string `json:"status"` // open | fixed
	Commit   string `json:"commit,omitempty"`
	What     string `json:"what"`
	Witness  string `json:"witness,omitempty"`
}

func loadConfig(id string) (*CheckConfig, error) {
	b, err := os.ReadFile(filepath.Join(verifDir, "checks", id+".json"))
	if err != nil {
		return nil, err
	}
	var c CheckConfig
	dec := json.NewDecoder(bytes.NewReader(b))
	dec.DisallowUnknownFields()
	if err := dec.Decode(&c); err != nil {
		return nil, fmt.Errorf("checks/%s.json: %v", id, err)
	}
	return &c, nil
}

func loadKnown() ([]KnownFinding, error) {
	b, err := os.ReadFile(filepath.Join(verifDir, "known_findings.json"))
	if err != nil {
		if os.IsNotExist(err) {
			return nil, nil
		}
		return nil, err
	}
	var k []KnownFinding
	if err := json.Unmarshal(b, &k); err != nil {
		return nil, fmt.Errorf("known_findings.json: %v", err)
	}
	return k, nil
}

// Overlay describes the virtual files laid over /repo for one check.
type Overlay struct {
	Files   map[string]string // virtual absolute path -> real file
	PkgDirs map[string]string // import path -> repo-relative dir of entry packages
}

func pkgNameOf(file string) (string, error) {
	fset := token.NewFileSet()
	f, err := parser.ParseFile(fset, file, nil, parser.PackageClauseOnly)
	if err != nil {
		return "", err
	}
	return f.Name.Name, nil
}

const modulePath = "github.com/ucan-wg/go-ucan"

func pkgDir(importPath string) string {
	return strings.TrimPrefix(strings.TrimPrefix(importPath, modulePath), "/")
}

// buildOverlay generates the runtime, replay-test and stub files under work
// and returns the overlay map.
func buildOverlay(cfg *CheckConfig, work string) (*Overlay, error) {
	ov := &Overlay{Files: map[string]string{}, PkgDirs: map[string]string{}}
	odir := filepath.Join(work, "overlay")
	os.RemoveAll(odir)
	if err := os.MkdirAll(odir, 0o755); err != nil {
		return nil, err
	}
	for _, h := range cfg.Harness {
		src := filepath.Join(verifDir, h.Src)
		if _, err := os.Stat(src); err != nil {
			return nil, err
		}
		ov.Files[filepath.Join(repoDir, h.Dst)] = src
	}
	rtT, err := os.ReadFile(filepath.Join(verifDir, "engine/rt/rt.go.tmpl"))
	if err != nil {
		return nil, err
	}
	testT, err := os.ReadFile(filepath.Join(verifDir, "engine/rt/replay_test.go.tmpl"))
	if err != nil {
		return nil, err
	}
	byPkg := map[string][]string{}
	for _, e := range cfg.Entries {
		byPkg[e.Pkg] = append(byPkg[e.Pkg], e.Func)
	}
	var pkgs []string
	for p := range byPkg {
		pkgs = append(pkgs, p)
	}
	sort.Strings(pkgs)
	for n, p := range pkgs {
		dir := pkgDir(p)
		ov.PkgDirs[p] = dir
		// package name from a harness file of that directory
		name := ""
		for _, h := range cfg.Harness {
			if filepath.Dir(h.Dst) == dir || (dir == "" && filepath.Dir(h.Dst) == ".") {
				nm, err := pkgNameOf(filepath.Join(verifDir, h.Src))
				if err != nil {
					return nil, err
				}
				name = nm
			}
		}
		if name == "" {
			return nil, fmt.Errorf("no harness file for entry package %s", p)
		}
		rt := strings.ReplaceAll(string(rtT), "PKGNAME", name)
		rtFile := filepath.Join(odir, fmt.Sprintf("rt_%d.go", n))
		if err := os.WriteFile(rtFile, []byte(rt), 0o644); err != nil {
			return nil, err
		}
		ov.Files[filepath.Join(repoDir, dir, "zz_verif_rt.go")] = rtFile
		var ents strings.Builder
		fns := byPkg[p]
		sort.Strings(fns)
		seen := map[string]bool{}
		for _, f := range fns {
			if !seen[f] {
				seen[f] = true
				fmt.Fprintf(&ents, "\t%q: %s,\n", f, f)
			}
		}
		tf := strings.ReplaceAll(string(testT), "PKGNAME", name)
		tf = strings.ReplaceAll(tf, "ENTRIES\n", ents.String())
		testFile := filepath.Join(odir, fmt.Sprintf("replay_%d_test.go", n))
		if err := os.WriteFile(testFile, []byte(tf), 0o644); err != nil {
			return nil, err
		}
		ov.Files[filepath.Join(repoDir, dir, "zz_verif_replay_test.go")] = testFile
	}
	// stubs: group by file
	byFile := map[string][]Stub{}
	for _, s := range cfg.Stubs {
		f := s.File
		if !filepath.IsAbs(f) {
			f = filepath.Join(repoDir, f)
		}
		byFile[f] = append(byFile[f], s)
	}
	var files []string
	for f := range byFile {
		files = append(files, f)
	}
	sort.Strings(files)
	for n, f := range files {
		out, err := stubFile(f, byFile[f])
		if err != nil {
			return nil, err
		}
		sf := filepath.Join(odir, fmt.Sprintf("stub_%d.go", n))
		if err := os.WriteFile(sf, out, 0o644); err != nil {
			return nil, err
		}
		ov.Files[f] = sf
	}
	return ov, nil
}

func (ov *Overlay) writeGoOverlay(path string) error {
	m := map[string]map[string]string{"Replace": ov.Files}
	b, _ := json.MarshalIndent(m, "", " ")
	return os.WriteFile(path, b, 0o644)
}

func (ov *Overlay) bytesMap() (map[string][]byte, error) {
	out := map[string][]byte{}
	for v, r := range ov.Files {
		if strings.HasSuffix(v, "_test.go") {
			continue
		}
		b, err := os.ReadFile(r)
		if err != nil {
			return nil, err
		}
		out[v] = b
	}
	return out, nil
}

// stubFile rewrites the current source of file so that each listed function
// F becomes F__orig and a forwarding F consults the hook variable
// VStub_[Recv_]F first. The rewrite is regenerated from the working tree on
// every run (nothing is cached).
func stubFile(file string, stubs []Stub) ([]byte, error) {
	fset := token.NewFileSet()
	f, err := parser.ParseFile(fset, file, nil, parser.ParseComments)
	if err != nil {
		return nil, err
	}
	var extra bytes.Buffer
	for _, s := range stubs {
		if s.Call != "" {
			parts := strings.SplitN(s.Call, ".", 2)
			if len(parts) != 2 {
				return nil, fmt.Errorf("stub: call %q must be pkg.Name", s.Call)
			}
			vname := "VCall_" + parts[0] + "_" + parts[1]
			hits := 0
			// every use of pkg.Name (call or function value) becomes the variable
			var rewrite func(n ast.Node) bool
			repl := func(e ast.Expr) ast.Expr {
				if se, ok := e.(*ast.SelectorExpr); ok {
					if id, ok := se.X.(*ast.Ident); ok && id.Name == parts[0] && se.Sel.Name == parts[1] {
						hits++
						return &ast.Ident{Name: vname, NamePos: se.Pos()}
					}
				}
				return e
			}
			rewrite = func(n ast.Node) bool {
				switch x := n.(type) {
				case *ast.CallExpr:
					x.Fun = repl(x.Fun)
					for i := range x.Args {
						x.Args[i] = repl(x.Args[i])
					}
				case *ast.KeyValueExpr:
					x.Value = repl(x.Value)
				case *ast.AssignStmt:
					for i := range x.Rhs {
						x.Rhs[i] = repl(x.Rhs[i])
					}
				case *ast.ReturnStmt:
					for i := range x.Results {
						x.Results[i] = repl(x.Results[i])
					}
				}
				return true
			}
			for _, d := range f.Decls {
				if fd, ok := d.(*ast.FuncDecl); ok {
					ast.Inspect(fd, rewrite)
				}
			}
			if hits == 0 {
				return nil, fmt.Errorf("stub: no call of %s in %s (the code the check depends on was refactored)", s.Call, file)
			}
			fmt.Fprintf(&extra, "\n// %s routes the calls of %s in this file (generated by gosym).\nvar %s = %s\n", vname, s.Call, vname, s.Call)
			continue
		}
		var fd *ast.FuncDecl
		for _, d := range f.Decls {
			d, ok := d.(*ast.FuncDecl)
			if !ok || d.Name.Name != s.Func {
				continue
			}
			recv := ""
			if d.Recv != nil && len(d.Recv.List) == 1 {
				t := d.Recv.List[0].Type
				if st, ok := t.(*ast.StarExpr); ok {
					t = st.X
				}
				if id, ok := t.(*ast.Ident); ok {
					recv = id.Name
				}
			}
			if recv == s.Recv {
				fd = d
			}
		}
		if fd == nil {
			return nil, fmt.Errorf("stub: %s.%s not found in %s (the code the check depends on was refactored)", s.Recv, s.Func, file)
		}
		if fd.Type.TypeParams != nil {
			return nil, fmt.Errorf("stub: generic function %s not supported", s.Func)
		}
		expr := func(e ast.Expr) string {
			var b bytes.Buffer
			printer.Fprint(&b, fset, e)
			return b.String()
		}
		var params, args, ptypes []string
		hook := "VStub_" + s.Func
		recvDecl := ""
		callOrig := s.Func + "__orig"
		if fd.Recv != nil {
			hook = "VStub_" + s.Recv + "_" + s.Func
			rt := expr(fd.Recv.List[0].Type)
			recvDecl = "(vrecv " + rt + ") "
			ptypes = append(ptypes, rt)
			args = append(args, "vrecv")
			callOrig = "vrecv." + s.Func + "__orig"
		}
		n := 0
		for _, fld := range fd.Type.Params.List {
			ts := expr(fld.Type)
			cnt := len(fld.Names)
			if cnt == 0 {
				cnt = 1
			}
			for k := 0; k < cnt; k++ {
				name := fmt.Sprintf("vp%d", n)
				n++
				params = append(params, name+" "+ts)
				if strings.HasPrefix(ts, "...") {
					ptypes = append(ptypes, "[]"+strings.TrimPrefix(ts, "..."))
					args = append(args, name)
				} else {
					ptypes = append(ptypes, ts)
					args = append(args, name)
				}
			}
		}
		results := ""
		hasRes := false
		if fd.Type.Results != nil && len(fd.Type.Results.List) > 0 {
			hasRes = true
			var rs []string
			for _, fld := range fd.Type.Results.List {
				cnt := len(fld.Names)
				if cnt == 0 {
					cnt = 1
				}
				for k := 0; k < cnt; k++ {
					rs = append(rs, expr(fld.Type))
				}
			}
			results = " (" + strings.Join(rs, ", ") + ")"
		}
		ret := ""
		if hasRes {
			ret = "return "
		}
		origArgs := args
		if fd.Recv != nil {
			origArgs = args[1:]
		}
		// variadic forwarding to the original
		oa := append([]string{}, origArgs...)
		if len(params) > 0 && strings.Contains(params[len(params)-1], " ...") {
			oa[len(oa)-1] += "..."
		}
		fmt.Fprintf(&extra, "\n// %s is the gosym stub hook for %s (generated).\nvar %s func(%s)%s\n\n", hook, s.Func, hook, strings.Join(ptypes, ", "), results)
		fmt.Fprintf(&extra, "func %s%s(%s)%s {\n\tif %s != nil {\n\t\t%s%s(%s)\n\t\treturn\n\t}\n\t%s%s(%s)\n}\n",
			recvDecl, s.Func, strings.Join(params, ", "), results, hook, ret, hook, strings.Join(args, ", "), ret, callOrig, strings.Join(oa, ", "))
		fd.Name.Name = s.Func + "__orig"
	}
	var out bytes.Buffer
	if err := printer.Fprint(&out, fset, f); err != nil {
		return nil, err
	}
	src := out.String() + extra.String()
	// "return X(...)\n\t\treturn" is fine for result-less functions only; fix up for those with results
	src = strings.ReplaceAll(src, ")\n\t\treturn\n\t}\n\treturn ", ")\n\t}\n\treturn ")
	return []byte(src), nil
}
