package main

import (
	"encoding/json"
	"fmt"
	"os"
	"path/filepath"
	"sort"
	"strings"

	"gosym/interp"
)

type evidenceExtra struct {
	loadS, replayS float64
	validated      int
	mismatches     []string
	nViol          int
	knownSeen      map[string]bool
	inconclusive   []string
	engineErr      []string
	wall           float64
	initFailures   []string
	open           []string
	exit           int
	confirmed      []confirmed
}

func repoFuncsOnly(all map[string]bool) (repo []string, deps int) {
	for f := range all {
		if strings.Contains(f, modulePath) && !strings.Contains(f, ".Verif") && !strings.Contains(f, ".verif") {
			repo = append(repo, f)
		} else {
			deps++
		}
	}
	sort.Strings(repo)
	return
}

func writeEvidence(cfg *CheckConfig, tier string, seed int64, stats []*entryStats, rs *runState, x evidenceExtra) {
	states, transitions, queries, sat, unsat, unknown, trunc := 0, 0, 0, 0, 0, 0, 0
	solverS := 0.0
	var samples []interface{}
	for _, st := range stats {
		states += st.Done + st.Aborted + st.Panicked
		transitions += st.Decisions
		queries += st.Queries
		sat += st.QSat
		unsat += st.QUnsat
		unknown += st.QUnknown
		trunc += st.Truncated
		solverS += st.SolverS
		n := 0
		for _, w := range st.witnesses {
			if n >= 3 {
				break
			}
			n++
			samples = append(samples, map[string]interface{}{"entry": w.Entry, "params": st.Params, "input": scriptText(w.Script), "trace": w.Trace})
		}
	}
	for i, c := range x.confirmed {
		if i >= 4 {
			break
		}
		samples = append(samples, map[string]interface{}{"entry": c.V.Entry, "counterexample": scriptText(c.V.Script), "message": c.V.Msg, "known_finding": c.V.Known, "native_trace": c.Native})
	}
	if len(samples) == 0 {
		samples = append(samples, "no completed path (see inconclusive / engine_errors)")
	}
	repoFuncs, depFuncs := repoFuncsOnly(rs.funcs)
	var exts []string
	for e := range rs.externals {
		exts = append(exts, e)
	}
	sort.Strings(exts)
	var knownSeen []string
	for k := range x.knownSeen {
		knownSeen = append(knownSeen, k)
	}
	sort.Strings(knownSeen)
	var stubs []string
	for _, s := range cfg.Stubs {
		n := s.Func
		if s.Recv != "" {
			n = s.Recv + "." + n
		}
		stubs = append(stubs, s.File+":"+n)
	}
	if states < 1 {
		states = 1
	}
	if transitions < 1 {
		transitions = 1
	}
	verdict := map[int]string{0: "pass", 1: "violation", 2: "inconclusive", 3: "engine-error"}[x.exit]
	cov := map[string]interface{}{
		"states":                        states,
		"transitions":                   transitions,
		"traces_validated_against_impl": x.validated,
		"samples":                       samples,
		"exhaustive":                    false,
		"explanation":                   "states = symbolic paths completed (each stands for every input satisfying its path condition); transitions = branch/value decisions taken; every assertion on every path was discharged by the SMT solver (unsat of path-condition AND NOT assertion). Exploration is exhaustive within the stated bounds iff every entry reports worklist_exhausted=true and truncated=0.",
		"bounds":                        cfg.Bounds[tier],
		"outside_claim":                 cfg.Outside,
		"entries":                       stats,
		"functions_encoded_repo":        repoFuncs,
		"functions_encoded_deps_count":  depFuncs,
		"externals_hit":                 exts,
		"stubs":                         stubs,
		"queries":                       queries,
		"sat":                           sat,
		"unsat":                         unsat,
		"unknown":                       unknown,
		"solver_s":                      round3(solverS),
		"second_solver_cross_checks":    crossSum(rs, 0),
		"second_solver_agreed":          crossSum(rs, 1),
		"load_s":                        round3(x.loadS),
		"replay_s":                      round3(x.replayS),
		"truncated_paths":               trunc,
		"engine_mismatches":             x.mismatches,
		"inconclusive":                  x.inconclusive,
		"engine_errors":                 x.engineErr,
		"package_init_failures":         x.initFailures,
		"open_known_findings":           x.open,
		"known_findings_reproduced":     knownSeen,
		"solver":                        solverName(),
		"verdict":                       verdict,
	}
	ev := map[string]interface{}{
		"property_id": cfg.Property,
		"tier":        tier,
		"seed":        seed,
		"level":       "model_checking",
		"coverage":    cov,
		"assumptions": cfg.Assumptions,
		"wall_s":      round3(x.wall),
		"violations":  x.nViol,
	}
	os.MkdirAll(evidenceDir(), 0o755)
	b, _ := json.MarshalIndent(ev, "", " ")
	os.WriteFile(filepath.Join(evidenceDir(), cfg.Property+".json"), b, 0o644)
}

func writeEvidenceError(cfg *CheckConfig, tier string, seed int64, wall float64, msg string) {
	ev := map[string]interface{}{
		"property_id": cfg.Property, "tier": tier, "seed": seed, "level": "model_checking",
		"coverage": map[string]interface{}{"states": 1, "transitions": 1, "traces_validated_against_impl": 0,
			"samples": []string{"engine error before exploration: " + msg}, "verdict": "engine-error"},
		"assumptions": cfg.Assumptions, "wall_s": round3(wall), "violations": 0,
	}
	os.MkdirAll(evidenceDir(), 0o755)
	b, _ := json.MarshalIndent(ev, "", " ")
	os.WriteFile(filepath.Join(evidenceDir(), cfg.Property+".json"), b, 0o644)
}

func round3(f float64) float64 { return float64(int64(f*1000+0.5)) / 1000 }

func solverName() string {
	if s := os.Getenv("GOSYM_SOLVER"); s != "" {
		return s
	}
	return "z3 (-in, no set-logic)"
}

var _ = fmt.Sprint
var _ interp.Dec

// crossSum adds up, over the worker processes that were alive at the end of
// an entry, how many assertion queries were re-discharged by cvc5 / z3-new
// (index 0) and how many of those got a definite, agreeing answer (index 1).
// (Workers recycled between entries take their counts with them: a lower bound.)
func crossSum(rs *runState, i int) int {
	n := 0
	for _, v := range rs.cross {
		n += v[i]
	}
	return n
}

// evidenceDir: /verif/evidence; scratch runs against a copy of the repository
// (GOSYM_REPO, development aid) write under .work instead so that they never
// replace the evidence of a run against /repo itself.
func evidenceDir() string {
	if os.Getenv("GOSYM_REPO") != "" {
		return filepath.Join(verifDir, ".work", "scratch-evidence")
	}
	return filepath.Join(verifDir, "evidence")
}
