package main

import (
	"bufio"
	"encoding/json"
	"fmt"
	"go/types"
	"os"
	"strings"

	"golang.org/x/tools/go/packages"
	"golang.org/x/tools/go/ssa"
	"golang.org/x/tools/go/ssa/ssautil"

	"gosym/interp"
)

// WorkerInit is sent once on the worker's command line (as a JSON file).
type WorkerInit struct {
	Overlay     map[string]string `json:"overlay"` // virtual -> real
	Patterns    []string          `json:"patterns"`
	TimeoutMs   int               `json:"timeout_ms"`
	StandaloneS int               `json:"standalone_s"`
	CrossEvery  int               `json:"cross_every"`
	WorkDir     string            `json:"work_dir"`
	MaxInstrs   int64             `json:"max_instrs"`
	OpenKnown   []string          `json:"open_known"`
	Solver      string            `json:"solver"`
}

type Job struct {
	Pkg    string         `json:"pkg"`
	Func   string         `json:"func"`
	Params map[string]int `json:"params"`
	Prefix []interp.Dec   `json:"prefix"`
}

type Hello struct {
	Ready        bool     `json:"ready"`
	Error        string   `json:"error,omitempty"`
	LoadMs       float64  `json:"load_ms"`
	Packages     int      `json:"packages"`
	InitFailures []string `json:"init_failures,omitempty"`
}

var initAllow = []string{
	"github.com/ucan-wg/go-ucan",
	"github.com/ipld/go-ipld-prime/datamodel", "github.com/ipld/go-ipld-prime/node/basicnode", "github.com/ipld/go-ipld-prime/node/mixins",
	"github.com/ipld/go-ipld-prime/fluent/qp", "github.com/ipld/go-ipld-prime/must", "github.com/ipld/go-ipld-prime/linking",
	"github.com/ipld/go-ipld-prime/codec", "github.com/ipld/go-ipld-prime/schema", "github.com/ipld/go-ipld-prime/node/basic",
	"github.com/ipld/go-ipld-prime/printer",
	"github.com/multiformats/go-multibase", "github.com/multiformats/go-base32", "github.com/multiformats/go-base36",
	"github.com/mr-tron/base58", "github.com/multiformats/go-varint", "github.com/multiformats/go-multicodec",
	"github.com/multiformats/go-multihash", "github.com/ipfs/go-cid",
	"github.com/polydawn/refmt/cbor", "github.com/polydawn/refmt/shared", "github.com/polydawn/refmt/tok", "github.com/polydawn/refmt/obj/atlas",
	"io", "bufio", "bytes", "encoding/base64", "encoding/base32", "encoding/binary", "encoding/hex", "strconv", "sort", "slices", "strings",
	"unicode", "unicode/utf8", "unicode/utf16", "regexp", "regexp/syntax", "math", "math/bits", "cmp", "iter", "maps", "errors",
}

var initDeny = []string{"io/fs", "io/ioutil", "github.com/ucan-wg/go-ucan/did/didtest", "github.com/ucan-wg/go-ucan/token/delegation/delegationtest",
	"github.com/ipld/go-ipld-prime/codec/dagjson", "github.com/ipld/go-ipld-prime/node/bindnode"}

// initExact: packages initialised without their sub-packages.
var initExact = []string{"crypto", "crypto/sha256", "crypto/sha512", "hash", "crypto/internal/boring/sig"}

func denyInit(p string) bool {
	for _, a := range initExact {
		if p == a {
			return false
		}
	}
	for _, d := range initDeny {
		if p == d || strings.HasPrefix(p, d+"/") {
			return true
		}
	}
	for _, a := range initAllow {
		if p == a || strings.HasPrefix(p, a+"/") {
			return false
		}
	}
	return true
}

func loadProgram(wi *WorkerInit) (*ssa.Program, map[string]*ssa.Package, int, error) {
	ov := map[string][]byte{}
	for v, r := range wi.Overlay {
		if strings.HasSuffix(v, "_test.go") {
			continue
		}
		b, err := os.ReadFile(r)
		if err != nil {
			return nil, nil, 0, err
		}
		ov[v] = b
	}
	cfg := &packages.Config{
		Mode:       packages.LoadAllSyntax,
		Dir:        repoDir,
		Overlay:    ov,
		BuildFlags: []string{"-tags=verif,purego"}, // purego: portable Go instead of assembly (e.g. SHA-256 blocks)
		Env:        append(os.Environ(), "GOFLAGS=-mod=mod", "GOPROXY=off", "GOSUMDB=off", "GOTOOLCHAIN=local"),
	}
	pkgs, err := packages.Load(cfg, wi.Patterns...)
	if err != nil {
		return nil, nil, 0, err
	}
	var errs []string
	packages.Visit(pkgs, nil, func(p *packages.Package) {
		for _, e := range p.Errors {
			errs = append(errs, e.Error())
		}
	})
	if len(errs) > 0 {
		if len(errs) > 12 {
			errs = errs[:12]
		}
		return nil, nil, 0, fmt.Errorf("package load errors:\n%s", strings.Join(errs, "\n"))
	}
	prog, spkgs := ssautil.AllPackages(pkgs, ssa.InstantiateGenerics)
	prog.Build()
	by := map[string]*ssa.Package{}
	for i, p := range pkgs {
		by[p.PkgPath] = spkgs[i]
	}
	return prog, by, len(prog.AllPackages()), nil
}

func workerMain(initFile string) {
	out := bufio.NewWriterSize(os.Stdout, 1<<20)
	enc := json.NewEncoder(out)
	say := func(v interface{}) { enc.Encode(v); out.Flush() }
	b, err := os.ReadFile(initFile)
	if err != nil {
		say(Hello{Error: err.Error()})
		os.Exit(3)
	}
	var wi WorkerInit
	if err := json.Unmarshal(b, &wi); err != nil {
		say(Hello{Error: err.Error()})
		os.Exit(3)
	}
	if wi.Solver != "" {
		interp.SolverBin = wi.Solver
	}
	if wi.StandaloneS > 0 {
		interp.StandaloneTimeoutS = wi.StandaloneS
	}
	if wi.WorkDir != "" {
		interp.StandaloneDir = wi.WorkDir
	}
	interp.CrossEvery = wi.CrossEvery
	t0 := nowMs()
	prog, by, npk, err := loadProgram(&wi)
	if err != nil {
		say(Hello{Error: err.Error()})
		os.Exit(3)
	}
	sizes := &types.StdSizes{WordSize: 8, MaxAlign: 8}
	eng := interp.NewEngine(prog, sizes, nil, denyInit, wi.TimeoutMs)
	defer eng.Close()
	if wi.MaxInstrs > 0 {
		eng.MaxInstrs = wi.MaxInstrs
	}
	for _, k := range wi.OpenKnown {
		eng.OpenKnown[k] = true
	}
	ierr := eng.Init()
	if ierr != "" {
		say(Hello{Error: "world init: " + ierr})
		os.Exit(3)
	}
	say(Hello{Ready: true, LoadMs: nowMs() - t0, Packages: npk, InitFailures: eng.InitFailures})
	in := bufio.NewReaderSize(os.Stdin, 1<<20)
	for {
		line, err := in.ReadBytes('\n')
		if len(line) > 0 {
			var job Job
			if e := json.Unmarshal(line, &job); e != nil {
				say(interp.PathResult{Status: "error", Why: "bad job: " + e.Error()})
				continue
			}
			sp := by[job.Pkg]
			if sp == nil {
				say(interp.PathResult{Status: "error", Why: "no package " + job.Pkg})
				continue
			}
			fn := sp.Func(job.Func)
			if fn == nil {
				say(interp.PathResult{Status: "error", Why: "no function " + job.Func + " in " + job.Pkg})
				continue
			}
			eng.Params = job.Params
			res := eng.RunPath(fn, job.Prefix)
			say(res)
		}
		if err != nil {
			return
		}
	}
}
