// gosym: bounded symbolic execution of Go SSA (see /verif/DESIGN.md §2).
//
//	gosym check <property> quick|thorough   run a registered check
//	gosym replay <file>                     re-run a recorded counterexample natively
//	gosym worker <init.json>                internal
package main

import (
	"encoding/json"
	"fmt"
	"os"
	"path/filepath"

	"gosym/interp"
)

func main() {
	if v := os.Getenv("GOSYM_VERIF_DIR"); v != "" {
		verifDir = v
	}
	if len(os.Args) < 2 {
		fmt.Fprintln(os.Stderr, "usage: gosym check <id> quick|thorough | replay <file>")
		os.Exit(3)
	}
	switch os.Args[1] {
	case "worker":
		workerMain(os.Args[2])
	case "check":
		if len(os.Args) < 4 {
			fmt.Fprintln(os.Stderr, "usage: gosym check <id> quick|thorough")
			os.Exit(3)
		}
		tier := os.Args[3]
		if t := os.Getenv("VERIF_TIER"); t == "quick" || t == "thorough" {
			// the registered command line decides; VERIF_TIER is informational
			_ = t
		}
		os.Exit(checkMain(os.Args[2], tier))
	case "replay":
		os.Exit(replayMain(os.Args[2]))
	default:
		fmt.Fprintln(os.Stderr, "unknown subcommand", os.Args[1])
		os.Exit(3)
	}
}

// replayMain re-runs a recorded counterexample against the native build of
// /repo's current working tree. Exit 1 if the violation reproduces.
func replayMain(file string) int {
	b, err := os.ReadFile(file)
	if err != nil {
		fmt.Fprintln(os.Stderr, err)
		return 3
	}
	var r struct {
		Property string             `json:"property"`
		Entry    string             `json:"entry"`
		Package  string             `json:"package"`
		Params   map[string]int     `json:"params"`
		Script   []interp.ScriptVal `json:"script"`
		Trace    []string           `json:"predicted_trace"`
	}
	if err := json.Unmarshal(b, &r); err != nil {
		fmt.Fprintln(os.Stderr, err)
		return 3
	}
	cfg, err := loadConfig(r.Property)
	if err != nil {
		fmt.Fprintln(os.Stderr, err)
		return 3
	}
	work := filepath.Join(verifDir, ".work", r.Property+"-replay")
	os.RemoveAll(work)
	os.MkdirAll(work, 0o755)
	ov, err := buildOverlay(cfg, work)
	if err != nil {
		fmt.Fprintln(os.Stderr, err)
		return 3
	}
	outs, logs, err := replayNative(ov, work, ov.PkgDirs[r.Package], []replayRun{{ID: 1, Entry: r.Entry, Params: r.Params, Script: r.Script}}, "single")
	if err != nil {
		fmt.Fprintln(os.Stderr, err)
		fmt.Fprintln(os.Stderr, tail(logs, 40))
		return 3
	}
	o := outs[1]
	fmt.Println("input:", scriptText(r.Script))
	fmt.Println("native trace:", o.Trace)
	if o.Panic != "" {
		fmt.Println("panic:", o.Panic)
	}
	if n := len(o.Trace); n > 0 {
		last := o.Trace[n-1]
		if len(last) >= 2 && (last[:2] == "A-" || last == "PANIC" || last == "BUDGET") {
			fmt.Printf("VIOLATION property=%s replay=%s\n", r.Property, file)
			return 1
		}
	}
	fmt.Println("not reproduced on the current tree")
	return 0
}
