// gosym: bounded symbolic execution of Go SSA (see /verif/DESIGN.md §2).
//
//	gosym check <property> quick|thorough   run a registered check
//	gosym replay <file>                     re-run a recorded counterexample natively
//	gosym worker <init.json>                internal
package main

import (
	"encoding/json"
	"fmt"
	"go/types"
	"os"
	"path/filepath"

	"gosym/interp"
)

func main() {
	if v := os.Getenv("GOSYM_VERIF_DIR"); v != "" {
		verifDir = v
	}
	if len(os.Args) < 2 {
		fmt.Fprintln(os.Stderr, "usage: gosym check <id> quick|thorough | replay <file>")
		os.Exit(3)
	}
	switch os.Args[1] {
	case "worker":
		workerMain(os.Args[2])
	case "check":
		if len(os.Args) < 4 {
			fmt.Fprintln(os.Stderr, "usage: gosym check <id> quick|thorough")
			os.Exit(3)
		}
		tier := os.Args[3]
		if t := os.Getenv("VERIF_TIER"); t == "quick" || t == "thorough" {
			// the registered command line decides; VERIF_TIER is informational
			_ = t
		}
		os.Exit(checkMain(os.Args[2], tier))
	case "symreplay":
		os.Exit(symReplayMain(os.Args[2]))
	case "replay":
		os.Exit(replayMain(os.Args[2]))
	default:
		fmt.Fprintln(os.Stderr, "unknown subcommand", os.Args[1])
		os.Exit(3)
	}
}

// replayMain re-runs a recorded counterexample against the native build of
// /repo's current working tree. Exit 1 if the violation reproduces.
func replayMain(file string) int {
	b, err := os.ReadFile(file)
	if err != nil {
		fmt.Fprintln(os.Stderr, err)
		return 3
	}
	var r struct {
		Property string             `json:"property"`
		Entry    string             `json:"entry"`
		Package  string             `json:"package"`
		Params   map[string]int     `json:"params"`
		Script   []interp.ScriptVal `json:"script"`
		Trace    []string           `json:"predicted_trace"`
	}
	if err := json.Unmarshal(b, &r); err != nil {
		fmt.Fprintln(os.Stderr, err)
		return 3
	}
	cfg, err := loadConfig(r.Property)
	if err != nil {
		fmt.Fprintln(os.Stderr, err)
		return 3
	}
	work := filepath.Join(verifDir, ".work", r.Property+"-replay")
	os.RemoveAll(work)
	os.MkdirAll(work, 0o755)
	ov, err := buildOverlay(cfg, work)
	if err != nil {
		fmt.Fprintln(os.Stderr, err)
		return 3
	}
	outs, logs, err := replayNative(ov, work, ov.PkgDirs[r.Package], []replayRun{{ID: 1, Entry: r.Entry, Params: r.Params, Script: r.Script}}, "single")
	if err != nil {
		fmt.Fprintln(os.Stderr, err)
		fmt.Fprintln(os.Stderr, tail(logs, 40))
		return 3
	}
	o := outs[1]
	fmt.Println("input:", scriptText(r.Script))
	fmt.Println("native trace:", o.Trace)
	if o.Panic != "" {
		fmt.Println("panic:", o.Panic)
	}
	if n := len(o.Trace); n > 0 {
		last := o.Trace[n-1]
		if len(last) >= 2 && (last[:2] == "A-" || last == "PANIC" || last == "BUDGET") {
			fmt.Printf("VIOLATION property=%s replay=%s\n", r.Property, file)
			return 1
		}
	}
	fmt.Println("not reproduced on the current tree")
	return 0
}

// symReplayMain runs a recorded script through the symbolic engine with all
// nondeterministic values pinned (debugging aid for engine/native mismatches).
func symReplayMain(file string) int {
	b, err := os.ReadFile(file)
	if err != nil {
		fmt.Fprintln(os.Stderr, err)
		return 3
	}
	var r struct {
		Property string             `json:"property"`
		Entry    string             `json:"entry"`
		Package  string             `json:"package"`
		Params   map[string]int     `json:"params"`
		Script   []interp.ScriptVal `json:"script"`
	}
	if err := json.Unmarshal(b, &r); err != nil {
		fmt.Fprintln(os.Stderr, err)
		return 3
	}
	cfg, err := loadConfig(r.Property)
	if err != nil {
		fmt.Fprintln(os.Stderr, err)
		return 3
	}
	work := filepath.Join(verifDir, ".work", r.Property+"-symreplay")
	os.RemoveAll(work)
	os.MkdirAll(work, 0o755)
	ov, err := buildOverlay(cfg, work)
	if err != nil {
		fmt.Fprintln(os.Stderr, err)
		return 3
	}
	wi := WorkerInit{Overlay: ov.Files, Patterns: []string{r.Package}, TimeoutMs: 10000, WorkDir: work}
	prog, by, _, err := loadProgram(&wi)
	if err != nil {
		fmt.Fprintln(os.Stderr, err)
		return 3
	}
	eng := interp.NewEngine(prog, &types.StdSizes{WordSize: 8, MaxAlign: 8}, nil, denyInit, 10000)
	defer eng.Close()
	if msg := eng.Init(); msg != "" {
		fmt.Fprintln(os.Stderr, msg)
		return 3
	}
	eng.Params = r.Params
	eng.Pinned = r.Script
	var work2 [][]interp.Dec
	work2 = append(work2, nil)
	for len(work2) > 0 {
		p := work2[len(work2)-1]
		work2 = work2[:len(work2)-1]
		res := eng.RunPath(by[r.Package].Func(r.Entry), p)
		fmt.Printf("status=%s why=%s decisions=%d trace=%v violations=%d\n", res.Status, res.Why, res.Decisions, res.Trace, len(res.Violations))
		for _, v := range res.Violations {
			fmt.Printf("  violation: %s %v\n", v.Msg, v.Trace)
		}
		work2 = append(work2, res.Alts...)
	}
	return 0
}
