package main

import (
	"bufio"
	"syscall"
	"encoding/json"
	"fmt"
	"io"
	"math/rand"
	"os"
	"os/exec"
	"path/filepath"
	"sort"
	"strconv"
	"strings"
	"sync"
	"time"

	"gosym/interp"
)

func nowMs() float64 { return float64(time.Now().UnixNano()) / 1e6 }

type worker struct {
	id    int
	cmd   *exec.Cmd
	in    io.WriteCloser
	out   *bufio.Reader
	hello Hello
	dead  bool
}

func startWorker(id int, initFile string) (*worker, error) {
	self, _ := os.Executable()
	cmd := exec.Command(self, "worker", initFile)
	cmd.Stderr = os.Stderr
	// own process group: killing a stuck worker must take its solver process along
	cmd.SysProcAttr = &syscall.SysProcAttr{Setpgid: true}
	in, _ := cmd.StdinPipe()
	out, _ := cmd.StdoutPipe()
	if err := cmd.Start(); err != nil {
		return nil, err
	}
	w := &worker{id: id, cmd: cmd, in: in, out: bufio.NewReaderSize(out, 1<<20)}
	line, err := w.out.ReadBytes('\n')
	if err != nil {
		cmd.Process.Kill()
		cmd.Wait()
		return nil, fmt.Errorf("worker %d died during load: %v", id, err)
	}
	if err := json.Unmarshal(line, &w.hello); err != nil {
		return nil, fmt.Errorf("worker %d: bad hello %q", id, line)
	}
	if !w.hello.Ready {
		cmd.Process.Kill()
		cmd.Wait()
		return nil, fmt.Errorf("worker %d: %s", id, w.hello.Error)
	}
	return w, nil
}

func (w *worker) kill() {
	w.dead = true
	w.in.Close()
	syscall.Kill(-w.cmd.Process.Pid, syscall.SIGKILL) // the whole group: worker and its z3
	w.cmd.Process.Kill()
	w.cmd.Wait()
}

// run sends one job and waits for its result (with a wall-clock limit).
func (w *worker) run(job *Job, limit time.Duration) (interp.PathResult, error) {
	b, _ := json.Marshal(job)
	b = append(b, '\n')
	if _, err := w.in.Write(b); err != nil {
		return interp.PathResult{}, err
	}
	type rr struct {
		line []byte
		err  error
	}
	ch := make(chan rr, 1)
	go func() {
		l, err := w.out.ReadBytes('\n')
		ch <- rr{l, err}
	}()
	select {
	case r := <-ch:
		if r.err != nil {
			return interp.PathResult{}, r.err
		}
		var pr interp.PathResult
		if err := json.Unmarshal(r.line, &pr); err != nil {
			return interp.PathResult{}, err
		}
		return pr, nil
	case <-time.After(limit):
		return interp.PathResult{}, fmt.Errorf("path exceeded the wall-clock limit of %v", limit)
	}
}

type entryStats struct {
	Entry      string         `json:"entry"`
	Params     map[string]int `json:"params"`
	Paths      int            `json:"paths"`
	Done       int            `json:"done"`
	Aborted    int            `json:"aborted_by_assumption"`
	Truncated  int            `json:"truncated"`
	Panicked   int            `json:"panicked"`
	Errors     int            `json:"engine_errors"`
	Decisions  int            `json:"decisions"`
	Instrs     int64          `json:"instructions"`
	Queries    int            `json:"queries"`
	QSat       int            `json:"sat"`
	QUnsat     int            `json:"unsat"`
	QUnknown   int            `json:"unknown"`
	SolverS    float64        `json:"solver_s"`
	WallS      float64        `json:"wall_s"`
	Reach      map[string]int `json:"reach"`
	MissingRch []string       `json:"missing_reach,omitempty"`
	Exhausted  bool           `json:"worklist_exhausted"`
	TruncWhy   map[string]int `json:"truncated_reasons,omitempty"`
	ErrWhy     []string       `json:"error_reasons,omitempty"`
	FrozenHits int            `json:"frozen_hits"`

	violations []interp.Violation
	witnesses  []witness
	nwit       int
}

type witness struct {
	Entry  string
	Script []interp.ScriptVal
	Trace  []string
}

type runState struct {
	cfg       *CheckConfig
	tier      string
	work      string
	initFile  string
	workers   []*worker
	funcs     map[string]bool
	externals map[string]bool
	rng       *rand.Rand
	mu        sync.Mutex
	nextWID   int
	pathLimit time.Duration
	maxWit    int
	deadline  time.Time // wall-clock cap of the whole exploration: afterwards no new path is started (=> INCONCLUSIVE unless a violation was confirmed)
	cross     map[*worker][2]int // per worker process: assertion queries re-discharged by cvc5/z3-new, agreed
}

func (rs *runState) explore(e *Entry, params map[string]int, maxPaths int) *entryStats {
	st := &entryStats{Entry: e.Func, Params: params, Reach: map[string]int{}, TruncWhy: map[string]int{}}
	t0 := time.Now()
	type item struct{ prefix []interp.Dec }
	stack := []item{{nil}}
	inflight := 0
	type res struct {
		w   *worker
		pr  interp.PathResult
		err error
	}
	results := make(chan res, len(rs.workers))
	idle := append([]*worker{}, rs.workers...)
	dispatched := 0
	for len(stack) > 0 || inflight > 0 {
		for len(stack) > 0 && len(idle) > 0 && dispatched < maxPaths && time.Now().Before(rs.deadline) {
			it := stack[len(stack)-1]
			stack = stack[:len(stack)-1]
			w := idle[len(idle)-1]
			idle = idle[:len(idle)-1]
			inflight++
			dispatched++
			job := &Job{Pkg: e.Pkg, Func: e.Func, Params: params, Prefix: it.prefix}
			go func(w *worker, job *Job) {
				pr, err := w.run(job, rs.pathLimit)
				results <- res{w, pr, err}
			}(w, job)
		}
		if inflight == 0 {
			break // path budget exhausted with work left
		}
		r := <-results
		inflight--
		st.Paths++
		if st.Paths%50000 == 0 {
			fmt.Fprintf(os.Stderr, "gosym: ... %s: %d paths, %d queued, %d violations, %.0fs\n", e.Func, st.Paths, len(stack), len(st.violations), time.Since(t0).Seconds())
		}
		if r.err != nil {
			// crashed or stuck worker: the path is truncated; replace the worker
			st.Truncated++
			st.TruncWhy["worker: "+firstLine(r.err.Error())]++
			r.w.kill()
			nw, err := startWorker(r.w.id, rs.initFile)
			if err == nil {
				for i, w := range rs.workers {
					if w == r.w {
						rs.workers[i] = nw
					}
				}
				idle = append(idle, nw)
			} else {
				fmt.Fprintln(os.Stderr, "gosym: cannot restart worker:", err)
				for i, w := range rs.workers {
					if w == r.w {
						rs.workers = append(rs.workers[:i], rs.workers[i+1:]...)
						break
					}
				}
				if len(rs.workers) == 0 {
					st.Errors++
					st.ErrWhy = append(st.ErrWhy, "all workers died")
					break
				}
			}
			continue
		}
		idle = append(idle, r.w)
		pr := r.pr
		if os.Getenv("GOSYM_VERBOSE") != "" {
			fmt.Fprintf(os.Stderr, "path %d: %s %s dec=%d instrs=%d q=%d wall=%.0fms alts=%d viol=%d\n", st.Paths, pr.Status, firstLine(pr.Why), pr.Decisions, pr.Instrs, pr.Queries, pr.WallMs, len(pr.Alts), len(pr.Violations))
		}
		for _, a := range pr.Alts {
			stack = append(stack, item{a})
		}
		st.Decisions += pr.Decisions
		st.Instrs += pr.Instrs
		st.Queries += pr.Queries
		st.QSat += pr.QSat
		st.QUnsat += pr.QUnsat
		st.QUnknown += pr.QUnknown
		st.SolverS += pr.SolverMs / 1000
		st.FrozenHits += len(pr.FrozenHits)
		if pr.CrossChecked > 0 {
			rs.mu.Lock()
			if rs.cross == nil {
				rs.cross = map[*worker][2]int{}
			}
			rs.cross[r.w] = [2]int{pr.CrossChecked, pr.CrossAgreed}
			rs.mu.Unlock()
		}
		for _, f := range pr.NewFuncs {
			rs.funcs[f] = true
		}
		for _, f := range pr.Externals {
			rs.externals[f] = true
		}
		for i := range pr.Violations {
			pr.Violations[i].Entry = e.Func
			st.violations = append(st.violations, pr.Violations[i])
		}
		switch pr.Status {
		case "done":
			st.Done++
			for _, t := range pr.Reach {
				st.Reach[t]++
			}
			if pr.Witness != nil {
				st.nwit++
				wt := witness{Entry: e.Func, Script: pr.Witness, Trace: pr.Trace}
				if len(st.witnesses) < rs.maxWit {
					st.witnesses = append(st.witnesses, wt)
				} else if j := rs.rng.Intn(st.nwit); j < rs.maxWit {
					st.witnesses[j] = wt
				}
			}
		case "abort":
			st.Aborted++
		case "panic":
			st.Panicked++
		case "truncated":
			st.Truncated++
			st.TruncWhy[firstLine(pr.Why)]++
			if os.Getenv("GOSYM_VERBOSE") != "" {
				fmt.Fprintln(os.Stderr, "truncated:", pr.Why)
			}
		default:
			st.Errors++
			if len(st.ErrWhy) < 5 {
				st.ErrWhy = append(st.ErrWhy, pr.Why)
			}
		}
	}
	st.Exhausted = len(stack) == 0
	for _, t := range e.Reach {
		if st.Reach[t] == 0 {
			st.MissingRch = append(st.MissingRch, t)
		}
	}
	st.WallS = time.Since(t0).Seconds()
	return st
}

func firstLine(s string) string {
	if i := strings.IndexByte(s, '\n'); i >= 0 {
		return s[:i]
	}
	return s
}

type replayRun struct {
	ID     int                `json:"id"`
	Entry  string             `json:"entry"`
	Params map[string]int     `json:"params"`
	Script []interp.ScriptVal `json:"script"`
}

type replayOut struct {
	ID    int      `json:"id"`
	Trace []string `json:"trace"`
	Panic string   `json:"panic,omitempty"`
}

// replayNative runs the given scripts against the natively compiled harness.
func replayNative(ov *Overlay, work string, pkgDirRel string, runs []replayRun, tag string) (map[int]replayOut, string, error) {
	if len(runs) == 0 {
		return map[int]replayOut{}, "", nil
	}
	rf := filepath.Join(work, "replay_"+tag+".json")
	b, _ := json.Marshal(runs)
	if err := os.WriteFile(rf, b, 0o644); err != nil {
		return nil, "", err
	}
	of := filepath.Join(work, "overlay_"+tag+".json")
	if err := ov.writeGoOverlay(of); err != nil {
		return nil, "", err
	}
	out := map[int]replayOut{}
	var logs strings.Builder
	remaining := runs
	for attempt := 0; attempt < 8 && len(remaining) > 0; attempt++ {
		b, _ := json.Marshal(remaining)
		os.WriteFile(rf, b, 0o644)
		cmd := exec.Command("go", "test", "-tags", "verif", "-overlay", of, "-vet=off", "-count=1", "-timeout", "20m",
			"-run", "^TestVerifReplay$", "-v", "./"+pkgDirRel)
		cmd.Dir = repoDir
		cmd.Env = append(os.Environ(), "GOFLAGS=-mod=mod", "GOPROXY=off", "GOSUMDB=off", "GOTOOLCHAIN=local", "VERIF_REPLAY="+rf)
		o, err := cmd.CombinedOutput()
		logs.Write(o)
		got := 0
		abandoned := false
		for _, line := range strings.Split(string(o), "\n") {
			line = strings.TrimSpace(line)
			if strings.HasPrefix(line, "VERIF-RESULT ") {
				var ro replayOut
				if json.Unmarshal([]byte(line[len("VERIF-RESULT "):]), &ro) == nil {
					out[ro.ID] = ro
					got++
				}
			}
			if line == "VERIF-ABANDON" {
				abandoned = true
			}
		}
		if err != nil && got == 0 {
			return out, logs.String(), fmt.Errorf("native replay build/run failed: %v", err)
		}
		var rest []replayRun
		for _, r := range remaining {
			if _, ok := out[r.ID]; !ok {
				rest = append(rest, r)
			}
		}
		if !abandoned && err == nil {
			break
		}
		if len(rest) == len(remaining) {
			break
		}
		remaining = rest
	}
	return out, logs.String(), nil
}

// nativeFails: the native trace ends in a failed assertion, an escaped panic
// or a budget overrun.
func nativeFails(tr []string) bool {
	if len(tr) == 0 {
		return false
	}
	last := tr[len(tr)-1]
	return strings.HasPrefix(last, "A-:") || last == "PANIC" || last == "BUDGET"
}

func sameTrace(a, b []string) bool {
	if len(a) != len(b) {
		return false
	}
	for i := range a {
		if a[i] != b[i] {
			return false
		}
	}
	return true
}

func scriptText(s []interp.ScriptVal) string {
	var parts []string
	for _, v := range s {
		parts = append(parts, v.Tag+"="+strconv.FormatUint(v.V, 10))
	}
	return strings.Join(parts, " ")
}

type confirmed struct {
	V      interp.Violation
	Native []string
	File   string
	Params map[string]int
}

func checkMain(id, tier string) int {
	t0 := time.Now()
	cfg, err := loadConfig(id)
	if err != nil {
		fmt.Fprintln(os.Stderr, "gosym:", err)
		return 3
	}
	known, err := loadKnown()
	if err != nil {
		fmt.Fprintln(os.Stderr, "gosym:", err)
		return 3
	}
	seed := int64(1)
	if s := os.Getenv("VERIF_SEED"); s != "" {
		if v, err := strconv.ParseInt(s, 10, 64); err == nil {
			seed = v
		}
	}
	work := filepath.Join(verifDir, ".work", id+"-"+tier+os.Getenv("GOSYM_WORKDIR_SUFFIX"))
	os.RemoveAll(work)
	os.MkdirAll(work, 0o755)
	ov, err := buildOverlay(cfg, work)
	if err != nil {
		fmt.Fprintln(os.Stderr, "gosym: overlay:", err)
		return 3
	}
	var open []string
	openSet := map[string]KnownFinding{}
	for _, k := range known {
		if k.Property == cfg.Property && k.Status == "open" {
			open = append(open, k.ID)
			openSet[k.ID] = k
		}
	}
	timeout := 3000
	if tier == "thorough" {
		timeout = 10000
	}
	if v, ok := cfg.TimeoutMs[tier]; ok {
		timeout = v
	}
	pats := map[string]bool{}
	for _, e := range cfg.Entries {
		pats[e.Pkg] = true
	}
	var patterns []string
	for p := range pats {
		patterns = append(patterns, p)
	}
	sort.Strings(patterns)
	wi := WorkerInit{Overlay: ov.Files, Patterns: patterns, TimeoutMs: timeout, MaxInstrs: cfg.MaxInstrs, OpenKnown: open, Solver: os.Getenv("GOSYM_SOLVER"), WorkDir: work, StandaloneS: map[string]int{"quick": 30, "thorough": 300}[tier], CrossEvery: map[string]int{"quick": 200, "thorough": 40}[tier]}
	initFile := filepath.Join(work, "worker_init.json")
	wb, _ := json.Marshal(wi)
	os.WriteFile(initFile, wb, 0o644)

	nw := 16
	if s := os.Getenv("GOSYM_WORKERS"); s != "" {
		if v, err := strconv.Atoi(s); err == nil && v > 0 {
			nw = v
		}
	}
	rs := &runState{cfg: cfg, tier: tier, work: work, initFile: initFile, funcs: map[string]bool{}, externals: map[string]bool{},
		rng: rand.New(rand.NewSource(seed)), pathLimit: 120 * time.Second, maxWit: 24}
	rs.deadline = t0.Add(20 * time.Minute)
	if tier == "thorough" {
		rs.pathLimit = 900 * time.Second
		rs.maxWit = 200
		rs.deadline = t0.Add(100 * time.Minute)
	}
	if v := os.Getenv("GOSYM_DEADLINE_MIN"); v != "" {
		if n, err := strconv.Atoi(v); err == nil && n > 0 {
			rs.deadline = t0.Add(time.Duration(n) * time.Minute)
		}
	}
	if v, ok := cfg.ReplayPaths[tier]; ok {
		rs.maxWit = v
	}
	// start workers in parallel
	{
		var wg sync.WaitGroup
		ws := make([]*worker, nw)
		errs := make([]error, nw)
		for i := 0; i < nw; i++ {
			wg.Add(1)
			go func(i int) {
				defer wg.Done()
				ws[i], errs[i] = startWorker(i, initFile)
			}(i)
		}
		wg.Wait()
		for i := range ws {
			if errs[i] != nil {
				fmt.Fprintln(os.Stderr, "gosym:", errs[i])
				for _, w := range ws {
					if w != nil {
						w.kill()
					}
				}
				writeEvidenceError(cfg, tier, seed, time.Since(t0).Seconds(), errs[i].Error())
				return 3
			}
			rs.workers = append(rs.workers, ws[i])
		}
	}
	loadS := time.Since(t0).Seconds()
	initFailures := rs.workers[0].hello.InitFailures
	defer func() {
		for _, w := range rs.workers {
			w.kill()
		}
	}()

	var stats []*entryStats
	pathsSinceStart := 0
	for i := range cfg.Entries {
		e := &cfg.Entries[i]
		if len(e.Tiers) > 0 {
			ok := false
			for _, t := range e.Tiers {
				if t == tier {
					ok = true
				}
			}
			if !ok {
				continue
			}
		}
		if only := os.Getenv("GOSYM_ONLY"); only != "" { // development aid: comma-separated entry indexes
			hit := false
			for _, x := range strings.Split(only, ",") {
				if x == strconv.Itoa(i) {
					hit = true
				}
			}
			if !hit {
				continue
			}
		}
		params := e.Params[tier]
		if params == nil {
			params = map[string]int{}
		}
		mp := 200000
		if v, ok := e.MaxPaths[tier]; ok {
			mp = v
		}
		if pathsSinceStart > 4000 {
			// workers accumulate interpreter and term-table garbage: start fresh ones
			var wg sync.WaitGroup
			for k := range rs.workers {
				wg.Add(1)
				go func(k int) {
					defer wg.Done()
					old := rs.workers[k]
					if nw, err := startWorker(old.id, initFile); err == nil {
						old.kill()
						rs.workers[k] = nw
					}
				}(k)
			}
			wg.Wait()
			pathsSinceStart = 0
		}
		st := rs.explore(e, params, mp)
		pathsSinceStart += st.Paths
		stats = append(stats, st)
		fmt.Fprintf(os.Stderr, "gosym: %s %s %s: paths=%d done=%d aborted=%d truncated=%d panicked=%d errors=%d violations=%d queries=%d solver=%.1fs wall=%.1fs exhausted=%v\n",
			id, tier, e.Func, st.Paths, st.Done, st.Aborted, st.Truncated, st.Panicked, st.Errors, len(st.violations), st.Queries, st.SolverS, st.WallS, st.Exhausted)
	}
	for _, w := range rs.workers {
		w.kill()
	}
	rs.workers = nil

	// ---- native replay: violations (deduplicated) and sampled path witnesses ----
	type rmeta struct {
		isViolation bool
		v           interp.Violation
		w           witness
		params      map[string]int
	}
	metas := map[int]rmeta{}
	byPkgRuns := map[string][]replayRun{}
	nextID := 0
	entryPkg := map[string]string{}
	for _, e := range cfg.Entries {
		entryPkg[e.Func] = e.Pkg
	}
	for _, st := range stats {
		groups := map[string]int{}
		for _, v := range st.violations {
			key := v.Entry + "|" + v.Kind + "|" + v.Msg + "|" + v.Known
			if groups[key] >= 3 {
				continue
			}
			groups[key]++
			nextID++
			metas[nextID] = rmeta{isViolation: true, v: v, params: st.Params}
			p := entryPkg[v.Entry]
			byPkgRuns[p] = append(byPkgRuns[p], replayRun{ID: nextID, Entry: v.Entry, Params: st.Params, Script: v.Script})
		}
		for _, w := range st.witnesses {
			nextID++
			metas[nextID] = rmeta{w: w}
			p := entryPkg[w.Entry]
			byPkgRuns[p] = append(byPkgRuns[p], replayRun{ID: nextID, Entry: w.Entry, Params: st.Params, Script: w.Script})
		}
	}
	var confirmedV []confirmed
	var mismatches []string
	validated := 0
	replayS := 0.0
	var replayErr error
	{
		tr := time.Now()
		var pk []string
		for p := range byPkgRuns {
			pk = append(pk, p)
		}
		sort.Strings(pk)
		type rres struct {
			outs map[int]replayOut
			logs string
			err  error
		}
		results := make([]rres, len(pk))
		{
			var wg sync.WaitGroup
			sem := make(chan struct{}, 4)
			for n, p := range pk {
				wg.Add(1)
				go func(n int, p string) {
					defer wg.Done()
					sem <- struct{}{}
					defer func() { <-sem }()
					o, l, e := replayNative(ov, work, ov.PkgDirs[p], byPkgRuns[p], strconv.Itoa(n))
					results[n] = rres{o, l, e}
				}(n, p)
			}
			wg.Wait()
		}
		for n, p := range pk {
			outs, logs, err := results[n].outs, results[n].logs, results[n].err
			os.WriteFile(filepath.Join(work, fmt.Sprintf("replay_%d.log", n)), []byte(logs), 0o644)
			if err != nil {
				replayErr = err
				fmt.Fprintln(os.Stderr, "gosym:", err)
				fmt.Fprintln(os.Stderr, tail(logs, 40))
				continue
			}
			for _, r := range byPkgRuns[p] {
				m := metas[r.ID]
				o, ok := outs[r.ID]
				if !ok {
					mismatches = append(mismatches, fmt.Sprintf("no native result for run %d (%s)", r.ID, r.Entry))
					continue
				}
				want := m.w.Trace
				if m.isViolation {
					want = m.v.Trace
				}
				if sameTrace(want, o.Trace) {
					validated++
					if m.isViolation {
						confirmedV = append(confirmedV, confirmed{V: m.v, Native: o.Trace, Params: m.params})
					}
				} else if m.isViolation && nativeFails(o.Trace) {
					// the engine predicted a violation and the native build fails an
					// assertion / panics on the same input, though not at the predicted
					// event (e.g. a slice that overruns its length panics in the engine
					// but reads allocator slack natively and fails the next assertion):
					// the native failure is what is reported.
					validated++
					v := m.v
					v.Msg = v.Msg + " [native build fails with: " + o.Trace[len(o.Trace)-1] + "]"
					confirmedV = append(confirmedV, confirmed{V: v, Native: o.Trace, Params: m.params})
				} else {
					what := "path witness"
					if m.isViolation {
						what = "violation (" + m.v.Msg + ")"
					}
					mf := filepath.Join(work, fmt.Sprintf("mismatch_%d.json", len(mismatches)+1))
					mb, _ := json.MarshalIndent(map[string]interface{}{"property": cfg.Property, "entry": r.Entry, "package": entryPkg[r.Entry], "params": r.Params, "script": r.Script, "predicted_trace": want, "native_trace": o.Trace}, "", " ")
					os.WriteFile(mf, mb, 0o644)
					mismatches = append(mismatches, fmt.Sprintf("%s of %s: engine predicted %v, native produced %v (panic=%q) on %s", what, r.Entry, want, o.Trace, o.Panic, scriptText(r.Script)))
				}
			}
		}
		replayS = time.Since(tr).Seconds()
	}

	// ---- verdict ----
	replayDir := filepath.Join(verifDir, "replays")
	if os.Getenv("GOSYM_REPO") != "" {
		replayDir = filepath.Join(verifDir, ".work", "scratch-replays")
	}
	os.MkdirAll(replayDir, 0o755)
	var violationLines, knownLines []string
	seenKnown := map[string]bool{}
	nViol := 0
	vfile := 0
	seenV := map[string]bool{}
	for _, c := range confirmedV {
		if c.V.Known != "" {
			if !seenKnown[c.V.Known] {
				seenKnown[c.V.Known] = true
				k := openSet[c.V.Known]
				knownLines = append(knownLines, fmt.Sprintf("KNOWN-FINDING: property=%s %s %s [witness: %s]", cfg.Property, c.V.Known, k.What, scriptText(c.V.Script)))
			}
			continue
		}
		key := c.V.Entry + "|" + c.V.Kind + "|" + c.V.Msg
		nViol++
		if seenV[key] {
			continue
		}
		seenV[key] = true
		vfile++
		path := filepath.Join(replayDir, fmt.Sprintf("%s-%s-%d.json", id, tier, vfile))
		rb, _ := json.MarshalIndent(map[string]interface{}{
			"property": cfg.Property, "entry": c.V.Entry, "package": entryPkg[c.V.Entry], "params": c.Params,
			"kind": c.V.Kind, "message": c.V.Msg, "script": c.V.Script, "predicted_trace": c.V.Trace, "native_trace": c.Native,
			"how": "gosym replay " + path,
		}, "", " ")
		os.WriteFile(path, rb, 0o644)
		violationLines = append(violationLines, fmt.Sprintf("VIOLATION property=%s replay=%s", cfg.Property, path))
		fmt.Fprintf(os.Stderr, "gosym: violation in %s: %s [%s] input: %s\n", c.V.Entry, c.V.Msg, c.V.Kind, scriptText(c.V.Script))
	}
	inconclusive := []string{}
	engineErr := []string{}
	for _, st := range stats {
		if st.Truncated > 0 {
			inconclusive = append(inconclusive, fmt.Sprintf("%s: %d truncated paths %v", st.Entry, st.Truncated, st.TruncWhy))
		}
		if !st.Exhausted {
			inconclusive = append(inconclusive, fmt.Sprintf("%s: path budget or wall-clock cap exhausted with work left", st.Entry))
		}
		if len(st.MissingRch) > 0 {
			inconclusive = append(inconclusive, fmt.Sprintf("%s: reachability witnesses not reached: %v (vacuity guard)", st.Entry, st.MissingRch))
		}
		if st.Errors > 0 {
			engineErr = append(engineErr, fmt.Sprintf("%s: %d engine errors: %v", st.Entry, st.Errors, st.ErrWhy))
		}
	}
	if replayErr != nil {
		engineErr = append(engineErr, replayErr.Error())
	}
	for _, m := range mismatches {
		engineErr = append(engineErr, "ENGINE-MISMATCH: "+m)
	}
	for _, k := range open {
		if !seenKnown[k] {
			fmt.Fprintf(os.Stderr, "gosym: note: open known finding %s was not reproduced in this run\n", k)
		}
	}
	exit := 0
	switch {
	case len(violationLines) > 0:
		exit = 1 // replay-confirmed violations take precedence over secondary engine noise
	case len(engineErr) > 0:
		exit = 3
	case len(inconclusive) > 0:
		exit = 2
	}
	for _, l := range knownLines {
		fmt.Println(l)
	}
	if exit == 1 {
		for _, l := range violationLines {
			fmt.Println(l)
		}
	}
	for _, l := range inconclusive {
		fmt.Println("INCONCLUSIVE:", l)
	}
	for _, l := range engineErr {
		fmt.Println("ENGINE-ERROR:", l)
	}

	// ---- evidence ----
	writeEvidence(cfg, tier, seed, stats, rs, evidenceExtra{
		loadS: loadS, replayS: replayS, validated: validated, mismatches: mismatches, nViol: nViol, knownSeen: seenKnown,
		inconclusive: inconclusive, engineErr: engineErr, wall: time.Since(t0).Seconds(), initFailures: initFailures, open: open, exit: exit,
		confirmed: confirmedV,
	})
	if exit == 0 {
		fmt.Printf("PASS property=%s tier=%s (held on every input within the stated bounds; see %s)\n", cfg.Property, tier, filepath.Join(verifDir, "evidence", cfg.Property+".json"))
	}
	return exit
}

func tail(s string, n int) string {
	lines := strings.Split(s, "\n")
	if len(lines) > n {
		lines = lines[len(lines)-n:]
	}
	return strings.Join(lines, "\n")
}
