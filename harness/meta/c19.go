//go:build verif

package meta

import (
	"github.com/ucan-wg/go-ucan/pkg/meta/internal/crypto"
)

// VerifC19Meta: a value added encrypted is returned unchanged when read with
// the same key, as string or bytes; what is stored is a byte string that the
// plain getters see as such; a different key gives an error, and unsupported
// value types are refused.
func VerifC19Meta() {
	crypto.VerifAEADInstall(vBytes)
	key := vBytes("key", 32)
	nz := false
	for _, b := range key {
		nz = vOr(nz, b != 0)
	}
	vAssume(nz)
	msg := vBytes("msg", vChoose("msglen", vParam("L")+1))
	m := NewMeta()
	asString := vChoose("as_string", 2) == 1
	var err error
	if asString {
		err = m.AddEncrypted("k", string(msg), key)
	} else {
		err = m.AddEncrypted("k", msg, key)
	}
	vAssert(err == nil, "AddEncrypted with a valid key fails")
	if err != nil {
		return
	}
	vReach("added")
	stored, err := m.GetBytes("k")
	vAssert(err == nil && len(stored) == 40+len(msg), "the stored value is not a byte string 40 bytes longer than the plaintext")
	if len(crypto.VerifSealLog) == 1 {
		vAssert(vEqBytes(crypto.VerifSealedMessage(0), msg), "another value than the caller's was encrypted")
	}
	switch vChoose("then", 3) {
	case 0:
		gb, err := m.GetEncryptedBytes("k", key)
		vReach("bytes-back")
		vAssert(err == nil && vEqBytes(gb, msg), "GetEncryptedBytes with the same key does not give the value back")
		gs, err := m.ReadOnly().GetEncryptedString("k", key)
		vAssert(err == nil && vEqStr(gs, string(msg)), "GetEncryptedString with the same key does not give the value back")
	case 1:
		other := vBytes("other", 32)
		vAssume(other[0] != 0)
		vAssume(vNot(vEqBytes(other, key)))
		gb, err := m.GetEncryptedBytes("k", other)
		vReach("wrong-key")
		vAssert(err != nil && gb == nil, "reading with a different key returns data instead of an error")
		gs, err := m.GetEncryptedString("k", other)
		vAssert(err != nil && gs == "", "reading with a different key returns a string instead of an error")
	default:
		vReach("bad-inputs")
		vAssert(m.AddEncrypted("n", 42, key) != nil, "AddEncrypted accepts a value that is neither string nor bytes")
		vAssert(m.AddEncrypted("z", msg, make([]byte, 32)) != nil, "AddEncrypted accepts an all-zero key")
		_, gerr := m.GetEncryptedBytes("missing", key)
		vAssert(gerr != nil, "reading a missing key returns data")
		_, nerr := m.GetNode("n")
		vAssert(nerr != nil, "a refused value was stored")
	}
}
