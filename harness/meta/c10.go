//go:build verif

package meta

import (
	"math"

	"github.com/ipld/go-ipld-prime/datamodel"
)

// VerifC10MetaValues: a numeric Go value given to Meta.Add is stored exactly
// or rejected, never silently altered.
func VerifC10MetaValues() {
	var v any
	kind := 0
	var s int64
	var u uint64
	var f float64
	switch vChoose("gotype", 12) {
	case 0:
		x := vInt("v")
		v, s = x, int64(x)
	case 1:
		x := vI8("v")
		v, s = x, int64(x)
	case 2:
		x := vI16("v")
		v, s = x, int64(x)
	case 3:
		x := vI32("v")
		v, s = x, int64(x)
	case 4:
		x := vI64("v")
		v, s = x, x
	case 5:
		x := vUint("v")
		v, u, kind = x, uint64(x), 1
	case 6:
		x := vU8("v")
		v, u, kind = x, uint64(x), 1
	case 7:
		x := vU16("v")
		v, u, kind = x, uint64(x), 1
	case 8:
		x := vU32("v")
		v, u, kind = x, uint64(x), 1
	case 9:
		x := vU64("v")
		v, u, kind = x, x, 1
	case 10:
		x := vF32("v")
		vAssume(x == x)
		v, f, kind = x, float64(x), 2
	default:
		x := vF64("v")
		v, f, kind = x, x, 2
	}
	m := NewMeta()
	err := m.Add("k", v)
	if err != nil {
		vReach("rejected")
		_, gerr := m.GetNode("k")
		vAssert(gerr != nil, "Meta.Add returned an error but stored the value")
		return
	}
	vReach("stored")
	node, gerr := m.GetNode("k")
	vAssert(gerr == nil, "Meta.Add succeeded but the key is missing")
	if gerr != nil {
		return
	}
	switch kind {
	case 0, 1:
		vAssert(node.Kind() == datamodel.Kind_Int, "Meta.Add: an integer was stored as another kind")
		got, err := m.GetInt64("k")
		vAssert(err == nil, "Meta.Add: stored integer cannot be read back")
		if kind == 0 {
			vAssert(got == s, "Meta.Add: a signed integer was silently altered")
		} else {
			vAssert(vAnd(got >= 0, uint64(got) == u), "Meta.Add: an unsigned integer was silently altered")
		}
	default:
		got, err := m.GetFloat64("k")
		vAssert(err == nil, "Meta.Add: stored float cannot be read back")
		vAssert(math.Float64bits(got) == math.Float64bits(f), "Meta.Add: a float was silently altered")
	}
}
