//go:build verif

package selector

import (
	"math"

	"github.com/ipld/go-ipld-prime"
	"github.com/ipld/go-ipld-prime/datamodel"
	"github.com/ipld/go-ipld-prime/fluent/qp"
	"github.com/ipld/go-ipld-prime/node/basicnode"
)

const c12Max53 = int64(1)<<53 - 1

// c12Bound: a slice bound as the parser can produce it: an int53 or the
// "absent" sentinel (MinInt for start, MaxInt for end).
func c12Bound(tag string, sentinel int64) (absent bool, v int64) {
	if vBool(tag + "_absent") {
		return true, sentinel
	}
	v = vI64(tag)
	vAssume(v <= c12Max53)
	vAssume(v >= -c12Max53)
	return false, v
}

// c12PyIndices: Python's slice(start, stop).indices(length) for step 1.
func c12PyIndices(absS bool, s int64, absE bool, e int64, n int64) (int64, int64) {
	start := int64(0)
	if !absS {
		start = s
		if start < 0 {
			start += n
			if start < 0 {
				start = 0
			}
		} else if start > n {
			start = n
		}
	}
	stop := n
	if !absE {
		stop = e
		if stop < 0 {
			stop += n
			if stop < 0 {
				stop = 0
			}
		} else if stop > n {
			stop = n
		}
	}
	return start, stop
}

// VerifC12SliceKernel: resolveSliceIndices against Python slice clamping,
// all int53 bounds and both sentinels, every length in [0, 2^31).
func VerifC12SliceKernel() {
	absS, s := c12Bound("start", math.MinInt)
	absE, e := c12Bound("end", math.MaxInt)
	n := vI64("length")
	vAssume(n >= 0)
	vAssume(n < 1<<31)
	gs, ge := resolveSliceIndices([]int64{s, e}, n)
	vReach("resolved")
	vAssert(vAnd(vAnd(0 <= gs, gs <= ge), ge <= n), "resolved slice indices are not within 0 <= start <= end <= length")
	ws, we := c12PyIndices(absS, s, absE, e, n)
	if ws >= we {
		vReach("empty")
		vAssert(gs == ge, "slice should be empty (Python clamping) but is not")
	} else {
		vReach("non-empty")
		vAssert(vAnd(gs == ws, ge == we), "resolved slice indices differ from Python slice clamping")
	}
}

// ---- data shapes ----

func c12Int(tag string) int64 {
	v := vI64(tag)
	vAssume(v <= c12Max53)
	vAssume(v >= -c12Max53)
	return v
}

func c12List(n int, tag string) ipld.Node {
	vals := make([]int64, n)
	for i := range vals {
		vals[i] = c12Int(tag)
	}
	nd, err := qp.BuildList(basicnode.Prototype.Any, int64(n), func(la datamodel.ListAssembler) {
		for _, v := range vals {
			qp.ListEntry(la, qp.Int(v))
		}
	})
	if err != nil {
		vSkip("unreachable: list build failed")
	}
	return nd
}

// c12Chars: the characters of the string built by the last c12Data call.
var c12Chars []string

// c12Data: one of the data shapes, leaves symbolic.
func c12Data(maxLen int) ipld.Node {
	switch vChoose("kind", 6) {
	case 0: // map {a: int, b: list(2), "": int, c: null}
		a, e := c12Int("ma"), c12Int("me")
		b := c12List(2, "mb")
		nd, err := qp.BuildMap(basicnode.Prototype.Any, 4, func(ma datamodel.MapAssembler) {
			qp.MapEntry(ma, "a", qp.Int(a))
			qp.MapEntry(ma, "b", qp.Node(b))
			qp.MapEntry(ma, "", qp.Int(e))
			qp.MapEntry(ma, "c", qp.Null()) // a key that is present and holds null
		})
		if err != nil {
			vSkip("unreachable: map build failed")
		}
		return nd
	case 1:
		return c12List(vChoose("len", maxLen+1), "l")
	case 2:
		return basicnode.NewBytes(vBytes("bytes", vChoose("len", maxLen+1)))
	case 3:
		// a string of 0..maxLen characters, each a symbolic ASCII byte or (CHARS>1)
		// a 2-byte / 3-byte character: slicing is by character, not by byte
		n := vChoose("len", maxLen+1)
		c12Chars = nil
		s := ""
		for i := 0; i < n; i++ {
			var ch string
			switch vChoose("ch"+string(rune('0'+i)), vParam("CHARS")) {
			case 0:
				ch = vString("str"+string(rune('0'+i)), 1)
				vAssume(ch[0] < 0x80)
			case 1:
				ch = "\u00e9"
			default:
				ch = "\u20ac"
			}
			c12Chars = append(c12Chars, ch)
			s += ch
		}
		return basicnode.NewString(s)
	case 4:
		return basicnode.NewInt(c12Int("i"))
	}
	return datamodel.Null
}

// c12Seg: one segment of any kind; indexes/slice bounds symbolic in [-R, R].
func c12Seg(R int64) segment {
	opt := vBool("optional")
	small := func(tag string) int64 {
		v := vI64(tag)
		vAssume(v >= -R)
		vAssume(v <= R)
		return v
	}
	switch vChoose("segkind", 5) {
	case 0:
		return segment{str: ".", identity: true, optional: opt}
	case 1:
		return segment{str: "[]", iterator: true, optional: opt}
	case 2:
		// field segments come from the parser (dotted and explicit forms, incl. the empty name)
		texts := []string{`.a`, `.b`, `.c`, `.[""]`, `.["a"]`, `.d`}
		t := texts[vChoose("field", len(texts))]
		if opt {
			t += "?"
		}
		sel, err := Parse(t)
		if err != nil || len(sel) == 0 {
			vSkip("unreachable: field selector text rejected")
		}
		return sel[len(sel)-1]
	case 3:
		return segment{str: "[i]", index: int(small("index")), optional: opt}
	}
	absS, s := false, int64(0)
	if vBool("start_absent") {
		absS, s = true, math.MinInt
	} else {
		s = small("start")
	}
	_ = absS
	e := int64(0)
	if vBool("end_absent") {
		e = math.MaxInt
	} else {
		e = small("end")
	}
	return segment{str: "[s:e]", slice: []int64{s, e}, optional: opt}
}

// c12Same: two resolution outcomes agree (both error / both no value / deep-equal nodes).
func c12Same(n1 ipld.Node, e1 error, n2 ipld.Node, e2 error) bool {
	if e1 != nil || e2 != nil {
		return e1 != nil && e2 != nil
	}
	if n1 == nil || n2 == nil {
		return n1 == nil && n2 == nil
	}
	return datamodel.DeepEqual(n1, n2)
}

// VerifC12Compose: resolving s1.s2 equals resolving s1 and then s2 on its result.
func VerifC12Compose() {
	d := c12Data(vParam("LEN"))
	R := int64(vParam("R"))
	s1, s2 := c12Seg(R), c12Seg(R)
	whole, errW := Selector{s1, s2}.Select(d)
	mid, err1 := Selector{s1}.Select(d)
	if err1 != nil {
		vReach("first-fails")
		vAssert(errW != nil, "the first segment fails alone, but the two-segment selector does not (a part of the selector was ignored)")
		return
	}
	step, err2 := Selector{s2}.Select(mid)
	vReach("first-resolves")
	vAssert(c12Same(whole, errW, step, err2), "resolving a two-segment selector differs from resolving its segments one after the other")
}

// ---- single-segment reference semantics ----

const (
	c12Val = iota
	c12NoValue
	c12Error
)

func c12FieldName(choice int) string { return []string{"a", "b", "c", "", "a", "d"}[choice] }

// c12RefSingle: the documented meaning of one segment on a (non-nil) value.
func c12RefSingle(seg segment, fieldChoice int, d ipld.Node) (ipld.Node, int) {
	fail := func() (ipld.Node, int) {
		if seg.optional {
			return nil, c12NoValue
		}
		return nil, c12Error
	}
	switch {
	case seg.identity:
		return d, c12Val
	case seg.iterator:
		switch d.Kind() {
		case datamodel.Kind_List:
			return d, c12Val
		case datamodel.Kind_Map:
			var vals []ipld.Node
			it := d.MapIterator()
			for !it.Done() {
				_, v, _ := it.Next()
				vals = append(vals, v)
			}
			nd, _ := qp.BuildList(basicnode.Prototype.Any, int64(len(vals)), func(la datamodel.ListAssembler) {
				for _, v := range vals {
					qp.ListEntry(la, qp.Node(v))
				}
			})
			return nd, c12Val
		case datamodel.Kind_Null:
			if seg.optional {
				nd, _ := qp.BuildList(basicnode.Prototype.Any, 0, func(la datamodel.ListAssembler) {})
				return nd, c12Val
			}
			return nil, c12Error
		}
		return nil, c12Error
	case fieldChoice >= 0:
		if d.Kind() != datamodel.Kind_Map {
			return fail()
		}
		v, err := d.LookupByString(c12FieldName(fieldChoice))
		if err != nil {
			return fail()
		}
		return v, c12Val
	case len(seg.slice) == 2:
		s, e := seg.slice[0], seg.slice[1]
		absS, absE := s == math.MinInt, e == math.MaxInt
		switch d.Kind() {
		case datamodel.Kind_List:
			a, b := c12PyIndices(absS, s, absE, e, d.Length())
			a, b = vConcI64(a), vConcI64(b)
			var items []ipld.Node
			for i := a; i < b; i++ {
				it, _ := d.LookupByIndex(i)
				items = append(items, it)
			}
			nd, _ := qp.BuildList(basicnode.Prototype.Any, int64(len(items)), func(la datamodel.ListAssembler) {
				for _, v := range items {
					qp.ListEntry(la, qp.Node(v))
				}
			})
			return nd, c12Val
		case datamodel.Kind_Bytes:
			bs, _ := d.AsBytes()
			a, b := c12PyIndices(absS, s, absE, e, int64(len(bs)))
			a, b = vConcI64(a), vConcI64(b)
			if a >= b {
				return basicnode.NewBytes(nil), c12Val
			}
			return basicnode.NewBytes(bs[a:b]), c12Val
		case datamodel.Kind_String:
			a, b := c12PyIndices(absS, s, absE, e, int64(len(c12Chars))) // by character
			a, b = vConcI64(a), vConcI64(b)
			out := ""
			for i := a; i < b; i++ {
				out += c12Chars[i]
			}
			return basicnode.NewString(out), c12Val
		}
		return nil, c12Error
	}
	// index
	i := int64(seg.index)
	switch d.Kind() {
	case datamodel.Kind_List:
		n := d.Length()
		if i < 0 {
			i += n
		}
		if i < 0 || i >= n {
			return fail()
		}
		v, _ := d.LookupByIndex(vConcI64(i))
		return v, c12Val
	case datamodel.Kind_Bytes:
		bs, _ := d.AsBytes()
		n := int64(len(bs))
		if i < 0 {
			i += n
		}
		if i < 0 || i >= n {
			return fail()
		}
		return basicnode.NewInt(int64(bs[vConcI64(i)])), c12Val
	}
	return fail()
}

// VerifC12Single: each segment kind against its documented meaning.
func VerifC12Single() {
	d := c12Data(vParam("LEN"))
	R := int64(vParam("R"))
	opt := vBool("optional")
	var seg segment
	fieldChoice := -1
	small := func(tag string) int64 {
		v := vI64(tag)
		vAssume(v >= -R)
		vAssume(v <= R)
		return v
	}
	switch vChoose("segkind", 5) {
	case 0:
		seg = segment{str: ".", identity: true, optional: opt}
	case 1:
		seg = segment{str: "[]", iterator: true, optional: opt}
	case 2:
		texts := []string{`.a`, `.b`, `.c`, `.[""]`, `.["a"]`, `.d`}
		fieldChoice = vChoose("field", len(texts))
		t := texts[fieldChoice]
		if opt {
			t += "?"
		}
		sel, err := Parse(t)
		if err != nil || len(sel) == 0 {
			vSkip("unreachable: field selector text rejected")
		}
		seg = sel[len(sel)-1]
	case 3:
		seg = segment{str: "[i]", index: int(small("index")), optional: opt}
	default:
		s, e := int64(math.MinInt), int64(math.MaxInt)
		if !vBool("start_absent") {
			s = small("start")
		}
		if !vBool("end_absent") {
			e = small("end")
		}
		seg = segment{str: "[s:e]", slice: []int64{s, e}, optional: opt}
	}
	want, status := c12RefSingle(seg, fieldChoice, d)
	got, err := Selector{seg}.Select(d)
	switch status {
	case c12Error:
		vReach("ref-error")
		vAssert(err != nil, "a failing non-optional segment did not produce an error")
	case c12NoValue:
		vReach("ref-no-value")
		vAssert(err == nil && got == nil, "a failing optional field/index segment did not yield 'no value'")
	default:
		vReach("ref-value")
		vAssert(err == nil && got != nil, "a segment that resolves produced an error or no value")
		if err == nil && got != nil {
			vAssert(datamodel.DeepEqual(got, want), "a segment resolved to a different value than documented")
		}
	}
}
