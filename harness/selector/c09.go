//go:build verif

package selector

import (
	"math"

	"github.com/ipld/go-ipld-prime/node/basicnode"
)

// VerifC09ParseSelect: every text over the grammar alphabet is parsed or
// rejected, and resolving an accepted selector on any data shape returns a
// value or an error: no panic, bounded work.
func VerifC09ParseSelect() {
	n := 1 + vChoose("len", vParam("L"))
	s := "." + c14Text("s", n-1)
	vBudget(2000000)
	sel, err := Parse(s)
	if err != nil {
		vReach("rejected")
		return
	}
	vReach("parsed")
	d := c12Data(vParam("LEN"))
	_, _ = sel.Select(d)
	vReach("selected")
}

// VerifC09SelectWide: index and slice segments with bounds anywhere in the
// int53 range, on every data shape: no panic (slice index clamping).
func VerifC09SelectWide() {
	d := c12Data(vParam("LEN"))
	R := int64(1)<<53 - 1
	vBudget(2000000)
	s1 := c12Seg(R)
	if vParam("SEGS") == 1 {
		_, _ = Selector{s1}.Select(d)
	} else {
		s2 := c12Seg(R)
		_, _ = Selector{s1, s2}.Select(d)
	}
	vReach("selected")
}

// VerifC09SliceLongString: slicing a string of 40 two-byte characters (longer
// than any small-allocation slack) with bounds anywhere in the int53 range
// returns a value or an error; no slice-bounds panic.
func VerifC09SliceLongString() {
	s := ""
	for i := 0; i < 40; i++ {
		s += "é"
	}
	d := basicnode.NewString(s)
	R := int64(1)<<53 - 1
	bound := func(tag string, sentinel int64) int64 {
		if vBool(tag + "_absent") {
			return sentinel
		}
		v := vI64(tag)
		vAssume(v >= -R)
		vAssume(v <= R)
		return v
	}
	seg := segment{str: "[s:e]", slice: []int64{bound("start", math.MinInt), bound("end", math.MaxInt)}, optional: vBool("optional")}
	vBudget(2000000)
	got, err := Selector{seg}.Select(d)
	vReach("selected")
	if err == nil && got != nil {
		str, serr := got.AsString()
		vAssert(serr == nil, "slicing a string did not give a string")
		vAssert(len(str)%2 == 0 && len(str) <= 80, "slicing a string of two-byte characters gave a result that is not made of its characters")
	}
}
