//go:build verif

package selector

// VerifC09ParseSelect: every text over the grammar alphabet is parsed or
// rejected, and resolving an accepted selector on any data shape returns a
// value or an error: no panic, bounded work.
func VerifC09ParseSelect() {
	n := 1 + vChoose("len", vParam("L"))
	s := "." + c14Text("s", n-1)
	vBudget(2000000)
	sel, err := Parse(s)
	if err != nil {
		vReach("rejected")
		return
	}
	vReach("parsed")
	d := c12Data(vParam("LEN"))
	_, _ = sel.Select(d)
	vReach("selected")
}

// VerifC09SelectWide: index and slice segments with bounds anywhere in the
// int53 range, on every data shape: no panic (slice index clamping).
func VerifC09SelectWide() {
	d := c12Data(vParam("LEN"))
	R := int64(1)<<53 - 1
	vBudget(2000000)
	s1 := c12Seg(R)
	if vParam("SEGS") == 1 {
		_, _ = Selector{s1}.Select(d)
	} else {
		s2 := c12Seg(R)
		_, _ = Selector{s1, s2}.Select(d)
	}
	vReach("selected")
}
