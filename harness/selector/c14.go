//go:build verif

package selector

import (
	"math"
)

// c14Alphabet: the characters that matter to the selector grammar.
var c14Alphabet = []byte{'.', '[', ']', '"', '?', ':', '-', '0', '9', 'a', '\\', '_'}

func c14Text(tag string, n int) string {
	s := vString(tag, n)
	for i := 0; i < len(s); i++ {
		ok := false
		for _, c := range c14Alphabet {
			ok = vOr(ok, s[i] == c)
		}
		vAssume(ok)
	}
	return s
}

// VerifC14Tokenize: tokenizing loses nothing: the tokens concatenate to the input.
func VerifC14Tokenize() {
	n := 1 + vChoose("len", vParam("L"))
	s := "." + c14Text("s", n-1)
	toks := tokenize(s)
	cat := ""
	for _, t := range toks {
		cat += t
	}
	vReach("tokenized")
	vAssert(vEqStr(cat, s), "tokenize dropped a part of the selector text")
}

// c14Atoi: decimal value of an optional '-' followed by digits (the text is
// already known to have that shape); non-forking on the digit values.
func c14Atoi(t string) int64 {
	neg := false
	i := 0
	if len(t) > 0 && t[0] == '-' {
		neg = true
		i = 1
	}
	var v int64
	for ; i < len(t); i++ {
		v = v*10 + int64(t[i]-'0')
	}
	if neg {
		return -v
	}
	return v
}

// VerifC14Parse: a selector text is rejected or interpreted in full.
func VerifC14Parse() {
	n := 1 + vChoose("len", vParam("L"))
	s := "." + c14Text("s", n-1)
	sel, err := Parse(s)
	if err != nil {
		vReach("rejected")
		return
	}
	vReach("accepted")
	printed := sel.String()
	vAssert(vEqStr(printed, s), "printing the parsed selector does not reproduce the text (a part was dropped or altered)")
	again, err2 := Parse(printed)
	vAssert(err2 == nil, "the printed selector does not parse")
	if err2 != nil {
		return
	}
	vAssert(len(again) == len(sel), "re-parsing the printed selector gives a different number of segments")
	if len(again) != len(sel) {
		return
	}
	for i := range sel {
		a, b := sel[i], again[i]
		same := vAnd(a.identity == b.identity, vAnd(a.optional == b.optional, a.iterator == b.iterator))
		same = vAnd(same, vAnd(vEqStr(a.field, b.field), a.index == b.index))
		same = vAnd(same, len(a.slice) == len(b.slice))
		if len(a.slice) == 2 && len(b.slice) == 2 {
			same = vAnd(same, vAnd(a.slice[0] == b.slice[0], a.slice[1] == b.slice[1]))
		}
		vAssert(same, "re-parsing the printed selector gives a different segment")
	}
	// each segment means what its text says
	for _, seg := range sel {
		t := seg.str
		opt := false
		for len(t) > 0 && t[len(t)-1] == '?' {
			opt = true
			t = t[:len(t)-1]
		}
		vAssert(seg.optional == opt, "optional flag differs from the trailing question mark")
		switch {
		case t == ".":
			vAssert(seg.identity, "'.' is not parsed as identity")
		case t == "[]":
			vAssert(seg.iterator, "'[]' is not parsed as iterator")
		case t[0] == '.':
			vAssert(vAnd(vEqStr(seg.field, t[1:]), vNot(vOr(seg.identity, seg.iterator))), "dotted field name differs from its text")
		case t[0] == '[' && len(t) >= 2 && t[len(t)-1] == ']':
			in := t[1 : len(t)-1]
			switch {
			case len(in) >= 2 && in[0] == '"' && in[len(in)-1] == '"':
				vAssert(vEqStr(seg.field, in[1:len(in)-1]), "quoted field name differs from its text")
			default:
				colon := -1
				for i := 0; i < len(in); i++ {
					if in[i] == ':' {
						colon = i
					}
				}
				if colon < 0 {
					vAssert(int64(seg.index) == c14Atoi(in), "index differs from its decimal text")
					vAssert(len(seg.slice) == 0, "index segment carries slice bounds")
				} else {
					vAssert(len(seg.slice) == 2, "slice segment without two bounds")
					if len(seg.slice) == 2 {
						lo, hi := int64(math.MinInt), int64(math.MaxInt)
						if colon > 0 {
							lo = c14Atoi(in[:colon])
						}
						if colon < len(in)-1 {
							hi = c14Atoi(in[colon+1:])
						}
						vAssert(vAnd(seg.slice[0] == lo, seg.slice[1] == hi), "slice bounds differ from their decimal text")
					}
				}
			}
		default:
			vAssert(false, "accepted a segment that is neither identity, field, iterator, index nor slice")
		}
	}
}
