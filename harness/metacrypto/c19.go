//go:build verif

package crypto

import (
	"errors"
	"io"
)

// ---------------------------------------------------------------------------
// C19 — the wrapper around an ideal AEAD.
//
// secretbox.Seal / secretbox.Open (XSalsa20-Poly1305) are replaced by an
// ideal authenticated cipher: Seal returns 16+len(m) fresh, unconstrained
// bytes and remembers (m, nonce, key); Open succeeds exactly on a box that
// Seal produced under the same nonce and key, and gives back that message.
// The random source is a stand-in returning unconstrained bytes (or failing).
// What is decided is go-ucan's own code: key validation, nonce handling, the
// layout nonce || box of the stored value, and error propagation.
// ---------------------------------------------------------------------------

type verifSealed struct {
	m, box []byte
	nonce  [24]byte
	key    [32]byte
}

var VerifSealLog []verifSealed
var VerifRandLog [][]byte
var VerifRandFails bool
var errVerifRand = errors.New("c19: random source failed")

// draw supplies unconstrained bytes from the runtime of the package whose
// harness entry is running (each package has its own replay script).
func VerifAEADInstall(draw func(tag string, n int) []byte) {
	VerifSealLog, VerifRandLog, VerifRandFails = nil, nil, false
	VCall_secretbox_Seal = func(out, message []byte, nonce *[24]byte, key *[32]byte) []byte {
		box := draw("box"+string(rune('0'+len(VerifSealLog))), 16+len(message))
		VerifSealLog = append(VerifSealLog, verifSealed{m: append([]byte{}, message...), box: box, nonce: *nonce, key: *key})
		return append(out, box...)
	}
	VCall_secretbox_Open = func(out, box []byte, nonce *[24]byte, key *[32]byte) ([]byte, bool) {
		for _, s := range VerifSealLog {
			if len(s.box) == len(box) && string(s.box) == string(box) && s.nonce == *nonce && s.key == *key {
				return append(out, s.m...), true
			}
		}
		return nil, false
	}
	VCall_io_ReadFull = func(r io.Reader, buf []byte) (int, error) {
		if VerifRandFails {
			return 0, errVerifRand
		}
		b := draw("rand"+string(rune('0'+len(VerifRandLog))), len(buf))
		copy(buf, b)
		VerifRandLog = append(VerifRandLog, b)
		return len(buf), nil
	}
}

func c19Key(tag string) []byte {
	k := vBytes(tag, 32)
	nz := false
	for _, b := range k {
		nz = vOr(nz, b != 0)
	}
	vAssume(nz)
	return k
}

// VerifC19Keys: keys that are missing, of the wrong size or all-zero are
// refused — and only those.
func VerifC19Keys() {
	var key []byte
	n := vChoose("keylen", 35) // 34 = nil
	if n < 34 {
		key = vBytes("key", n)
	}
	VerifAEADInstall(vBytes)
	_, err := EncryptWithKey([]byte{1}, key) // (through the exported API: the helper behind it may be refactored)
	allZero := true
	for _, b := range key {
		allZero = vAnd(allZero, b == 0)
	}
	bad := vOr(key == nil, vOr(len(key) != 32, allZero))
	if err != nil {
		vReach("refused")
	} else {
		vReach("accepted")
	}
	vAssert((err != nil) == bad, "key validation differs from: missing, wrong size or all-zero keys are refused, all others accepted")
	_, derr := DecryptStringWithKey(make([]byte, 41), key)
	vAssert(vImplies(bad, derr != nil), "DecryptStringWithKey accepts a key that validation refuses")
}

// VerifC19Box: encrypt-then-decrypt gives the plaintext back; the stored
// value is the fresh random nonce followed by the box sealed under that nonce
// and key; a different key, a modified stored value, a short value or a
// failing random source give an error, never data.
func VerifC19Box() {
	VerifAEADInstall(vBytes)
	key := c19Key("key")
	msg := vBytes("msg", vChoose("msglen", vParam("L")+1))
	VerifRandFails = vBool("rand_fails")
	stored, err := EncryptWithKey(msg, key)
	if VerifRandFails {
		vReach("rand-failed")
		vAssert(err != nil && stored == nil, "a failing random source still yields a ciphertext")
		return
	}
	vAssert(err == nil, "encryption with a valid key fails")
	if err != nil {
		return
	}
	vReach("encrypted")
	vAssert(len(VerifRandLog) == 1 && len(VerifSealLog) == 1, "encryption does not draw exactly one nonce and seal exactly once")
	if len(VerifRandLog) != 1 || len(VerifSealLog) != 1 {
		return
	}
	nonce, sealed := VerifRandLog[0], VerifSealLog[0]
	vAssert(len(stored) == 24+16+len(msg), "the stored value is not 40 bytes longer than the plaintext")
	vAssert(vEqBytes(stored[:24], nonce), "the stored value does not start with the freshly drawn nonce")
	vAssert(vEqBytes(sealed.nonce[:], nonce), "the box was sealed under another nonce than the freshly drawn one")
	vAssert(vEqBytes(sealed.key[:], key), "the box was sealed under another key than the caller's")
	vAssert(vEqBytes(sealed.m, msg), "another message than the caller's was sealed")
	vAssert(len(stored) >= 24 && vEqBytes(stored[24:], sealed.box), "the stored value does not end with the sealed box")

	switch vChoose("then", 5) {
	case 0:
		got, err := DecryptStringWithKey(stored, key)
		vReach("round-trip")
		vAssert(err == nil && vEqBytes(got, msg), "decrypting with the same key does not give the plaintext back")
	case 1:
		other := c19Key("other")
		vAssume(vNot(vEqBytes(other, key)))
		got, err := DecryptStringWithKey(stored, other)
		vReach("wrong-key")
		vAssert(err != nil && got == nil, "decrypting with a different key returns data instead of an error")
	case 2:
		pos := vChoose("tamper_at", len(stored))
		x := vU8("tamper_xor")
		vAssume(x != 0)
		bad := append([]byte{}, stored...)
		bad[pos] ^= x
		got, err := DecryptStringWithKey(bad, key)
		vReach("tampered")
		vAssert(err != nil && got == nil, "a modified stored value decrypts to data instead of an error")
	case 3:
		short := stored[:vChoose("short_len", 24+16)]
		got, err := DecryptStringWithKey(short, key)
		vReach("short")
		vAssert(err != nil && got == nil, "a truncated stored value decrypts to data instead of an error")
	default:
		// a second encryption of the same value under the same key
		stored2, err := EncryptWithKey(msg, key)
		vAssert(err == nil && len(VerifRandLog) == 2, "a second encryption does not draw a second nonce")
		if err == nil && len(VerifRandLog) == 2 {
			vReach("twice")
			differ := vNot(vEqBytes(VerifRandLog[0], VerifRandLog[1]))
			vAssert(vImplies(differ, vNot(vEqBytes(stored, stored2))), "two encryptions of the same value under different nonces give the same stored value")
			vAssert(vEqBytes(stored2[:24], VerifRandLog[1]), "the second stored value does not start with the second nonce")
		}
	}
}

// VerifSealedMessage: the i-th message handed to the cipher.
func VerifSealedMessage(i int) []byte { return VerifSealLog[i].m }

// VerifC19Sequence: over a long sequence of encryptions of the same value
// under the same key, every stored value starts with a nonce that was freshly
// drawn for that encryption: with a random source that never repeats a
// 24-byte block, no two stored values are equal. (Sequence length N: nonce
// caches and pools only show beyond their size.)
func VerifC19Sequence() {
	VerifAEADInstall(vBytes)
	// a random source whose output never repeats: a running counter spread over the bytes
	ctr := uint64(0)
	drawn := 0
	VCall_io_ReadFull = func(r io.Reader, buf []byte) (int, error) {
		for i := range buf {
			if i%8 == 0 {
				ctr++
			}
			buf[i] = byte(ctr >> (8 * uint(i%8)))
		}
		drawn += len(buf)
		return len(buf), nil
	}
	key := make([]byte, 32)
	key[0] = vU8("key0")
	vAssume(key[0] != 0)
	msg := []byte{7}
	N := vParam("N")
	seen := map[string]int{}
	for i := 0; i < N; i++ {
		stored, err := EncryptWithKey(msg, key)
		vAssert(err == nil && len(stored) >= 24, "encryption fails in a long sequence")
		if err != nil || len(stored) < 24 {
			return
		}
		nonce := string(stored[:24])
		if j, dup := seen[nonce]; dup {
			_ = j
			vAssert(false, "two encryptions of the same value in one sequence carry the same nonce although the random source never repeats")
			return
		}
		seen[nonce] = i
	}
	vReach("sequence-done")
	vAssert(drawn >= 24*N, "fewer than 24 fresh random bytes were drawn per encryption")
}
