//go:build verif

package container

import (
	"bytes"
	"errors"
	"io"

	"github.com/ipfs/go-cid"
	"github.com/multiformats/go-multihash"

	"github.com/ucan-wg/go-ucan/did"
	"github.com/ucan-wg/go-ucan/pkg/command"
	"github.com/ucan-wg/go-ucan/token"
	"github.com/ucan-wg/go-ucan/token/delegation"
)

// ---------------------------------------------------------------------------
// C17 / C18 — containers and streams.
//
// Sealed tokens are opaque byte strings to the container code; what it does
// with them is: hash them, frame them, hand them to token.FromSealed. The
// harness uses short concrete "sealed" byte strings and replaces
// token.FromSealed by a stand-in that recognises them (and can declare any of
// them corrupt/unverifiable). SHA-256, CID and CAR/CBOR/base64 framing are the
// real code. Solver variables: which tokens are corrupt, the CID a caller
// stores a block under (codec and a digest byte), the chunking of a stream,
// the position of an injected fault.
// ---------------------------------------------------------------------------

type c17Tok struct {
	data    []byte
	c       cid.Cid
	tkn     *delegation.Token
	corrupt bool
}

var c17Toks []*c17Tok

// c17Pads: how many sealed sizes per token are explored (1..3).
var c17Pads = 3

// c17EqualSizes: all tokens have the same sealed size, so that offsets of
// section boundaries do not depend on the order in which the Writer (a Go
// map) is iterated natively.
var c17EqualSizes = false

func c17TrueCid(data []byte) cid.Cid {
	c, err := cid.V1Builder{Codec: 0x71, MhType: multihash.SHA2_256}.Sum(data)
	if err != nil {
		vSkip("unreachable: hashing failed")
	}
	return c
}

// c17Setup makes k tokens whose sealed sizes give every base64 remainder.
func c17Setup(k int, symbolicCorruption bool) {
	c17Toks = nil
	for i := 0; i < k; i++ {
		n := 5 + 2*i + vChoose("pad"+string(rune('0'+i)), c17Pads) // sizes 5..7, 7..9
		if c17EqualSizes {
			n = 7
		}
		data := make([]byte, n)
		for j := range data {
			data[j] = byte(0x40 + 16*i + j)
		}
		data[0] = 0x82
		t := &c17Tok{data: data, c: c17TrueCid(data)}
		t.tkn = delegation.VerifToken(did.VerifDID(byte(i+1)), did.VerifDID(9), did.Undef, command.Top(), nil, nil, nil)
		if symbolicCorruption {
			t.corrupt = vBool("corrupt" + string(rune('0'+i)))
		}
		c17Toks = append(c17Toks, t)
	}
	VCall_token_FromSealed = func(data []byte) (token.Token, cid.Cid, error) {
		for _, t := range c17Toks {
			if bytes.Equal(t.data, data) {
				if t.corrupt {
					return nil, cid.Undef, errors.New("c17: signature does not verify")
				}
				return t.tkn, t.c, nil
			}
		}
		return nil, cid.Undef, errors.New("c17: not a sealed token")
	}
}

const (
	c17Car = iota
	c17CarB64
	c17Cbor
	c17CborB64
)

func c17Write(w Writer, format int, stream bool) ([]byte, error) {
	if !stream {
		switch format {
		case c17Car:
			return w.ToCar()
		case c17CarB64:
			return w.ToCarBase64()
		case c17Cbor:
			return w.ToCbor()
		}
		return w.ToCborBase64()
	}
	var buf bytes.Buffer
	var err error
	switch format {
	case c17Car:
		err = w.ToCarWriter(&buf)
	case c17CarB64:
		err = w.ToCarBase64Writer(&buf)
	case c17Cbor:
		err = w.ToCborWriter(&buf)
	default:
		err = w.ToCborBase64Writer(&buf)
	}
	return buf.Bytes(), err
}

func c17ReadFrom(r io.Reader, format int) (Reader, error) {
	switch format {
	case c17Car:
		return FromCarReader(r)
	case c17CarB64:
		return FromCarBase64Reader(r)
	case c17Cbor:
		return FromCborReader(r)
	}
	return FromCborBase64Reader(r)
}

func c17Read(data []byte, format int, stream bool) (Reader, error) {
	if stream {
		return c17ReadFrom(bytes.NewReader(data), format)
	}
	switch format {
	case c17Car:
		return FromCar(data)
	case c17CarB64:
		return FromCarBase64(data)
	case c17Cbor:
		return FromCbor(data)
	}
	return FromCborBase64(data)
}

// c17Exact: rd holds exactly the tokens 0..k-1 under their true CIDs.
func c17Exact(rd Reader, k int, what string) {
	vAssert(len(rd) == k, what+": the reader does not hold exactly the tokens that were written")
	for i := 0; i < k; i++ {
		got, err := rd.GetToken(c17Toks[i].c)
		vAssert(err == nil, what+": a token is not retrievable under the CID of its sealed bytes")
		if err == nil {
			vAssert(got == token.Token(c17Toks[i].tkn), what+": a CID gives back another token")
		}
	}
}

// VerifC17Matrix: every format x {bytes, stream} writer x {bytes, stream}
// reader gives back exactly the tokens added, in any insertion order; one
// corrupt / unverifiable entry makes the read fail.
func VerifC17Matrix() {
	c17Pads, c17EqualSizes = 3, false
	k := 1 + vChoose("tokens", vParam("K"))
	c17Setup(k, true)
	format := vChoose("format", 4)
	wStream, rStream := vChoose("writer_stream", 2) == 1, vChoose("reader_stream", 2) == 1
	w := NewWriter()
	if vChoose("reverse_insertion", 2) == 1 {
		for i := k - 1; i >= 0; i-- {
			w.AddSealed(c17Toks[i].c, c17Toks[i].data)
		}
	} else {
		for i := 0; i < k; i++ {
			w.AddSealed(c17Toks[i].c, c17Toks[i].data)
		}
	}
	out, err := c17Write(w, format, wStream)
	vAssert(err == nil, "writing a container to memory failed")
	if err != nil {
		return
	}
	before := append([]byte{}, out...)
	rd, err := c17Read(out, format, rStream)
	vAssert(bytes.Equal(out, before), "reading a container modified the caller's bytes")
	anyCorrupt := false
	for _, t := range c17Toks {
		anyCorrupt = vOr(anyCorrupt, t.corrupt)
	}
	if err != nil {
		vReach("read-failed")
		vAssert(anyCorrupt, "reading back what was written fails although every entry is intact")
		return
	}
	vReach("read-ok")
	vAssert(!anyCorrupt, "a container with a corrupt or unverifiable entry was read without error")
	c17Exact(rd, k, "round trip")
	// the same bytes can be read again, with either variant
	rd2, err2 := c17Read(out, format, !rStream)
	vAssert(err2 == nil, "reading the same container bytes a second time fails")
	if err2 == nil {
		c17Exact(rd2, k, "second read")
	}
}

// VerifC17BlockCid: a CAR block stored by the caller under an arbitrary CID
// (any codec, a digest that may be wrong) is either rejected or returned
// under the true CID of its bytes.
func VerifC17BlockCid() {
	c17Pads, c17EqualSizes = 1, false
	c17Setup(2, false)
	codec := vU8("codec")
	vAssume(codec < 0x80)
	vAssume(codec != 0) // 0 is not a CIDv1 codec go-cid parses into a v1
	flip := vU8("digest_xor")
	truth := c17Toks[1].c.Bytes() // 01 71 12 20 <32 bytes>
	raw := append([]byte{}, truth...)
	raw[1] = codec
	raw[4] ^= flip
	_, stored, err := cid.CidFromBytes(raw)
	if err != nil {
		vSkip("not a CID")
	}
	w := NewWriter()
	w.AddSealed(c17Toks[0].c, c17Toks[0].data)
	w.AddSealed(stored, c17Toks[1].data)
	out, err := w.ToCar()
	vAssert(err == nil, "writing a container to memory failed")
	if err != nil {
		return
	}
	rd, err := FromCar(out)
	if err != nil {
		vReach("rejected")
		vAssert(flip != 0, "a CAR whose blocks all hash to their CIDs was rejected")
		return
	}
	vReach("accepted")
	vAssert(flip == 0, "a CAR block stored under a CID that does not hash to its data was accepted")
	c17Exact(rd, 2, "CAR with a caller-chosen block CID")
}

// VerifC17Corrupt: one byte of a written container is replaced (any offset),
// or the container is cut short: reading fails, or still yields exactly the
// tokens that were written — never a partial or mislabelled set.
func VerifC17Corrupt() {
	c17Pads, c17EqualSizes = 1, true
	k := 2
	c17Setup(k, false)
	format := []int{c17Car, c17Cbor}[vChoose("format", 2)]
	w := NewWriter()
	for i := 0; i < k; i++ {
		w.AddSealed(c17Toks[i].c, c17Toks[i].data)
	}
	out, err := c17Write(w, format, false)
	if err != nil {
		vSkip("unreachable: write failed")
	}
	bad := append([]byte{}, out...)
	legitCut := false
	if vChoose("truncate", 2) == 1 {
		keep := vChoose("keep", len(out))
		bad = bad[:keep]
		if format == c17Car {
			// a CAR cut exactly at a section boundary is a shorter, well-formed CAR
			pos := 0
			for pos < len(out) {
				pos += 1 + int(out[pos])
				if pos == keep {
					legitCut = true
				}
			}
		}
		vReach("truncated")
	} else {
		off := vChoose("offset", len(out))
		// Positions whose value selects how much is allocated / which hash
		// function runs / what gets hashed take a restricted set of
		// replacements (stated in the bounds); every other position takes any
		// value.
		hashed, prefix := false, false
		if format == c17Car {
			prefix = off == 0
			pos := 1 + int(out[0])
			for pos < len(out) {
				l := int(out[pos])
				if off == pos || off == pos+1+3 { // section length, multihash digest length
					prefix = true
				}
				if off == pos+1+2 || (off >= pos+1+36 && off < pos+1+l) { // multihash code, token data
					hashed = true
				}
				pos += 1 + l
			}
		}
		if hashed {
			bad[off] ^= []byte{0x01, 0x80, 0xff}[vChoose("flip", 3)]
		} else {
			v := vU8("value")
			vAssume(v != out[off])
			if prefix {
				vAssume(v < 0x80) // a one-byte length (longer ones make go-cid / ldRead allocate up to their 32 MiB caps, which the engine does not materialise)
			}
			bad[off] = v
		}
		vReach("byte-replaced")
	}
	vBudget(20000000)
	rd, err := c17Read(bad, format, false)
	if err != nil {
		vReach("rejected")
		return
	}
	vReach("accepted")
	if legitCut {
		vAssert(len(rd) < k, "a truncated CAR yields all tokens")
		return
	}
	c17Exact(rd, k, "corrupted container that was accepted")
}

// VerifC17DupCid: hand-assembled CARs in which a section carries token B's
// bytes under the CID of its sibling A, in every order: the mislabelled
// section makes the read fail, wherever it stands.
func VerifC17DupCid() {
	c17Pads, c17EqualSizes = 1, true
	c17Setup(3, false)
	hdr, err := NewWriter().ToCar() // header only
	if err != nil {
		vSkip("unreachable: header")
	}
	section := func(c []byte, data []byte) []byte {
		return append(append([]byte{byte(len(c) + len(data))}, c...), data...)
	}
	a, b, c := c17Toks[0], c17Toks[1], c17Toks[2]
	good := map[int][]byte{0: section(a.c.Bytes(), a.data), 1: section(b.c.Bytes(), b.data), 2: section(c.c.Bytes(), c.data)}
	bad := section(a.c.Bytes(), b.data) // B's bytes under A's CID
	// layout: the three slots in a chosen order, B's slot either honest or mislabelled
	orders := [][]int{{0, 1, 2}, {0, 2, 1}, {1, 0, 2}, {1, 2, 0}, {2, 0, 1}, {2, 1, 0}}
	ord := orders[vChoose("order", 6)]
	mislabel := vChoose("mislabel", 2) == 1
	car := append([]byte{}, hdr...)
	for _, k := range ord {
		if k == 1 && mislabel {
			car = append(car, bad...)
		} else {
			car = append(car, good[k]...)
		}
	}
	rd, err := FromCar(car)
	if mislabel {
		vReach("mislabelled")
		vAssert(err != nil, "a CAR with a section stored under a CID that does not hash to its data (the CID of a sibling) is read without error")
		return
	}
	vReach("honest")
	vAssert(err == nil, "an honest hand-assembled CAR is rejected")
	if err == nil {
		c17Exact(rd, 3, "hand-assembled CAR")
	}
}
