//go:build verif

package container

import (
	"bufio"
	"bytes"

	"github.com/ipld/go-ipld-prime"
	"github.com/ipld/go-ipld-prime/codec/dagcbor"
)

// VerifC09LdRead: a length-delimited section read from any byte stream
// returns a section or an error, and never allocates more than the section
// size cap whatever length the stream announces.
func VerifC09LdRead() {
	n := vChoose("len", vParam("N")+1)
	data := vBytes("b", n)
	br := bufio.NewReader(bytes.NewReader(data))
	var buf []byte
	var err error
	alloc := vMeasureAlloc(func() { buf, err = ldRead(br) })
	vReach("returned")
	// natively the measure counts bytes (bufio's 4 KiB buffer included), under
	// the engine elements of the largest single allocation
	vAssert(alloc <= int(maxAllowedSectionSize)+(1<<16), "ldRead allocates more than the section size cap on the word of a length prefix")
	_ = buf
	_ = err
}

// VerifC09LdReadResult: what ldRead returns is consistent: a non-empty
// section of the announced length, or an error.
func VerifC09LdReadResult() {
	n := vChoose("len", vParam("N")+1)
	data := vBytes("b", n)
	if n > 0 {
		vAssume(data[0] < 0x80) // one-byte length prefix: the section fits the engine
	}
	br := bufio.NewReader(bytes.NewReader(data))
	buf, err := ldRead(br)
	if err != nil {
		vReach("error")
		return
	}
	vReach("section")
	vAssert(len(buf) > 0, "ldRead returned an empty section without error")
	vAssert(int(data[0]) == len(buf), "ldRead returned a section of another length than announced")
}

// VerifC09Car: a CAR container read from any byte stream returns a reader or
// an error (no panic, bounded work).
func VerifC09Car() {
	n := vChoose("len", vParam("N")+1)
	data := vBytes("b", n)
	if n > 0 {
		vAssume(data[0] < 0x80)
	}
	vBudget(5000000)
	_, err := FromCar(data)
	if err != nil {
		vReach("error")
	} else {
		vReach("ok")
	}
}

// VerifC09Cbor: a CBOR container read from any byte string returns a reader
// or an error.
func VerifC09Cbor() {
	n := vChoose("len", vParam("N")+1)
	data := vBytes("b", n)
	vBudget(5000000)
	_, err := FromCbor(data)
	if err != nil {
		vReach("error")
	} else {
		vReach("ok")
	}
}

// VerifC09DagCbor: the DAG-CBOR decoder every token and container decoder
// starts with returns a node or an error on any byte string.
func VerifC09DagCbor() {
	n := vChoose("len", vParam("N")+1)
	data := vBytes("b", n)
	vBudget(5000000)
	_, err := ipld.Decode(data, dagcbor.Decode)
	if err != nil {
		vReach("error")
	} else {
		vReach("ok")
	}
}

// VerifC09DagCborAlloc: whatever lengths the input announces, the decoder
// does not allocate more than 1 MiB for an input of a few bytes.
func VerifC09DagCborAlloc() {
	n := vChoose("len", vParam("N")+1)
	data := vBytes("b", n)
	alloc := vMeasureAlloc(func() { _, _ = ipld.Decode(data, dagcbor.Decode) })
	vReach("measured")
	vAssert(alloc <= 1<<20, "the DAG-CBOR decoder allocates more than 1 MiB for an input of a few bytes")
}
