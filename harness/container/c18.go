//go:build verif

package container

import (
	"bytes"
	"errors"
	"io"
)

var errC18 = errors.New("c18: injected I/O fault")

// c18Reader delivers data in chunks of at most `chunk` bytes; at byte offset
// `cut` it either fails (fault=1), ends early (fault=2) or — when cut ==
// len(data) — ends normally. With withEOF the last chunk comes together with
// io.EOF, as the io.Reader contract allows.
type c18Reader struct {
	data    []byte
	pos     int
	chunk   int
	cut     int
	fault   int
	withEOF bool
}

func (r *c18Reader) Read(p []byte) (int, error) {
	limit := r.cut
	if r.pos >= limit {
		if r.fault == 1 {
			return 0, errC18
		}
		return 0, io.EOF
	}
	n := len(p)
	if n > r.chunk {
		n = r.chunk
	}
	if n > limit-r.pos {
		n = limit - r.pos
	}
	copy(p, r.data[r.pos:r.pos+n])
	r.pos += n
	if r.pos >= limit && r.withEOF && r.fault != 1 {
		return n, io.EOF
	}
	return n, nil
}

var c18Chunks = []int{1, 2, 7, 1 << 20}

// c18Boundaries: offsets in a CAR stream at which a section ends.
func c18CarBoundaries(out []byte) map[int]bool {
	b := map[int]bool{}
	pos := 0
	for pos < len(out) {
		l := int(out[pos]) // sections here are shorter than 128 bytes: one-byte prefix
		pos += 1 + l
		b[pos] = true
	}
	return b
}

// VerifC18ReadFaults: reading a container from a stream equals reading it
// from memory however the stream is chunked; a read error or an early end of
// stream at any offset is reported (a CAR cut exactly between two blocks
// yields the blocks before the cut).
func VerifC18ReadFaults() {
	c17Pads, c17EqualSizes = 1, true // offsets of section ends must not depend on map iteration order
	k := 2
	c17Setup(k, false)
	format := vChoose("format", 4)
	w := NewWriter()
	for i := 0; i < k; i++ {
		w.AddSealed(c17Toks[i].c, c17Toks[i].data)
	}
	out, err := c17Write(w, format, false)
	if err != nil {
		vSkip("unreachable: write failed")
	}
	chunk := c18Chunks[vChoose("chunk", len(c18Chunks))]
	withEOF := vChoose("data_with_eof", 2) == 1
	fault := vChoose("fault", 3) // 0 none, 1 read error, 2 early end of stream
	cut := len(out)
	if fault != 0 {
		cut = vChoose("offset", len(out)) // 0 .. len-1
	}
	rd, err := c17ReadFrom(&c18Reader{data: out, chunk: chunk, cut: cut, fault: fault, withEOF: withEOF}, format)
	switch fault {
	case 0:
		vReach("no-fault")
		vAssert(err == nil, "reading an intact container from a chunked stream fails")
		if err == nil {
			c17Exact(rd, k, "chunked stream")
		}
	case 1:
		vReach("read-error")
		vAssert(err != nil, "a read error of the underlying stream was swallowed: the call reports success")
	default:
		vReach("early-end")
		legit := false
		switch format {
		case c17Car:
			legit = cut > 0 && c18CarBoundaries(out)[cut] // after the header or after a block
		case c17CarB64:
			// a cut after a whole base64 group that is also a section end of the CAR inside
			if raw, rerr := c17Write(w, c17Car, false); rerr == nil && cut > 0 && cut%4 == 0 {
				legit = c18CarBoundaries(raw)[cut/4*3]
			}
		}
		if legit {
			vReach("cut-between-blocks")
			if err == nil {
				vAssert(len(rd) < k, "a truncated CAR stream yields all tokens")
				for c := range rd {
					vAssert(c == c17Toks[0].c || c == c17Toks[1].c, "a truncated CAR stream yields a token that was not written")
				}
			}
		} else {
			vAssert(err != nil, "a stream that ends early is read without error")
		}
	}
}

// c18Sink accepts `okWrites` Write calls and fails the next one.
type c18Sink struct {
	buf      bytes.Buffer
	okWrites int
	calls    int
	failed   bool
}

func (s *c18Sink) Write(p []byte) (int, error) {
	s.calls++
	if s.calls > s.okWrites {
		s.failed = true
		return 0, errC18
	}
	return s.buf.Write(p)
}

// VerifC18WriteFaults: writing a container to a stream produces the bytes of
// the buffered call; if the underlying writer fails at any write call -
// including the final flush of the base64 encoder - the call returns an error.
func VerifC18WriteFaults() {
	c17Pads, c17EqualSizes = 3, false
	k := 1 + vChoose("tokens", 2)
	c17Setup(k, false)
	format := vChoose("format", 4)
	w := NewWriter()
	for i := 0; i < k; i++ {
		w.AddSealed(c17Toks[i].c, c17Toks[i].data)
	}
	want, err := c17Write(w, format, false)
	if err != nil {
		vSkip("unreachable: write failed")
	}
	// count the write calls of a fault-free run
	probe := &c18Sink{okWrites: 1 << 30}
	if err := c18WriteTo(w, format, probe); err != nil {
		vSkip("unreachable: write failed")
	}
	c18SameOutput(probe.buf.Bytes(), want, k, format)
	total := probe.calls
	failAt := vChoose("fail_at_write", total+1) // total = no fault
	sink := &c18Sink{okWrites: failAt}
	err = c18WriteTo(w, format, sink)
	if sink.failed {
		vReach("sink-failed")
		vAssert(err != nil, "a failed write of the underlying stream was swallowed: the call reports success for output that was not completely written")
	} else {
		vReach("sink-ok")
		vAssert(err == nil, "writing to a healthy stream fails")
		c18SameOutput(sink.buf.Bytes(), want, k, format)
	}
}

func c18WriteTo(w Writer, format int, sink io.Writer) error {
	switch format {
	case c17Car:
		return w.ToCarWriter(sink)
	case c17CarB64:
		return w.ToCarBase64Writer(sink)
	case c17Cbor:
		return w.ToCborWriter(sink)
	}
	return w.ToCborBase64Writer(sink)
}

// c18SameOutput: the stream writer's output equals the buffered call's. The
// Writer is a Go map, whose iteration order may differ between two calls when
// it holds several tokens; then the outputs are compared as containers (same
// length, same tokens) instead of byte for byte.
func c18SameOutput(got, want []byte, k int, format int) {
	if k == 1 {
		vAssert(bytes.Equal(got, want), "the stream writer produces other bytes than the buffered call")
		return
	}
	vAssert(len(got) == len(want), "the stream writer produces output of another length than the buffered call")
	rd, err := c17Read(got, format, true)
	vAssert(err == nil, "the stream writer's output cannot be read back")
	if err == nil {
		c17Exact(rd, k, "stream writer output")
	}
}
