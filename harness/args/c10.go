//go:build verif

package args

import (
	"math"

	"github.com/ipld/go-ipld-prime/datamodel"

	"github.com/ucan-wg/go-ucan/pkg/policy/literal"
)

const c10Max53 = int64(1)<<53 - 1

// c10Value: a Go value of one of the numeric types with a symbolic value, as
// `any`, together with the mathematical reading of it.
//   kind 0: signed integer s; kind 1: unsigned integer u; kind 2: float f
func c10Value() (v any, kind int, s int64, u uint64, f float64) {
	switch vChoose("gotype", 12) {
	case 0:
		x := vInt("v")
		return x, 0, int64(x), 0, 0
	case 1:
		x := vI8("v")
		return x, 0, int64(x), 0, 0
	case 2:
		x := vI16("v")
		return x, 0, int64(x), 0, 0
	case 3:
		x := vI32("v")
		return x, 0, int64(x), 0, 0
	case 4:
		x := vI64("v")
		return x, 0, x, 0, 0
	case 5:
		x := vUint("v")
		return x, 1, 0, uint64(x), 0
	case 6:
		x := vU8("v")
		return x, 1, 0, uint64(x), 0
	case 7:
		x := vU16("v")
		return x, 1, 0, uint64(x), 0
	case 8:
		x := vU32("v")
		return x, 1, 0, uint64(x), 0
	case 9:
		x := vU64("v")
		return x, 1, 0, x, 0
	case 10:
		x := vF32("v")
		// a NaN does not survive float32->float64 bit for bit on every platform
		vAssume(x == x)
		return x, 2, 0, 0, float64(x)
	}
	x := vF64("v")
	return x, 2, 0, 0, x
}

// c10Exact asserts that node holds exactly the value that was supplied.
func c10Exact(node datamodel.Node, kind int, s int64, u uint64, f float64, what string) {
	switch kind {
	case 0, 1:
		vAssert(node.Kind() == datamodel.Kind_Int, what+": an integer was stored as another kind")
		got, err := node.AsInt()
		vAssert(err == nil, what+": stored integer cannot be read back")
		if kind == 0 {
			vAssert(got == s, what+": a signed integer was silently altered")
		} else {
			vAssert(vAnd(got >= 0, uint64(got) == u), what+": an unsigned integer was silently altered")
		}
		vAssert(vAnd(got <= c10Max53, got >= -c10Max53), what+": an integer outside +/-(2^53-1) was accepted")
	default:
		vAssert(node.Kind() == datamodel.Kind_Float, what+": a float was stored as another kind")
		got, err := node.AsFloat()
		vAssert(err == nil, what+": stored float cannot be read back")
		vAssert(math.Float64bits(got) == math.Float64bits(f), what+": a float was silently altered")
	}
}

// VerifC10ArgsValues: a numeric Go value given to Args.Add / literal.Any is
// stored exactly or rejected.
func VerifC10ArgsValues() {
	v, kind, s, u, f := c10Value()
	a := New()
	err := a.Add("k", v)
	if err != nil {
		vReach("rejected")
		_, gerr := a.GetNode("k")
		vAssert(gerr != nil, "Args.Add returned an error but stored the value")
		// a value that fits must not be rejected
		switch kind {
		case 0:
			vAssert(vOr(s > c10Max53, s < -c10Max53), "Args.Add rejected a signed integer within +/-(2^53-1)")
		case 1:
			vAssert(u > uint64(c10Max53), "Args.Add rejected an unsigned integer within 2^53-1")
		default:
			vAssert(false, "Args.Add rejected a float")
		}
		return
	}
	vReach("stored")
	node, gerr := a.GetNode("k")
	vAssert(gerr == nil, "Args.Add succeeded but the key is missing")
	if gerr != nil {
		return
	}
	c10Exact(node, kind, s, u, f, "Args.Add")
	vAssert(len(a.Keys) == 1 && a.Keys[0] == "k", "Args.Add did not record the key")
	// the same through literal.Any directly
	n2, err2 := literal.Any(v)
	vAssert(err2 == nil, "literal.Any rejects what Args.Add stores")
	if err2 == nil {
		c10Exact(n2, kind, s, u, f, "literal.Any")
	}
	// and the stored arguments validate
	vAssert(a.Validate() == nil, "Args.Validate rejects what Args.Add stored")
}

// VerifC10Nested: numeric values inside slices and maps (literal.Any's
// reflection path) are stored exactly or rejected as well.
func VerifC10Nested() {
	var v any
	kind := 0
	var s int64
	var u uint64
	// (maps go through reflect.Value.MapKeys / MapIndex, which the engine's
	// reflection model does not cover: outside the bound)
	switch vChoose("shape", 3) {
	case 0:
		x := vU64("v")
		v, kind, u = []uint64{x}, 1, x
	case 1:
		x := vI64("v")
		v, s = []int64{x}, x
	default:
		x := vUint("v")
		v, kind, u = []any{x}, 1, uint64(x)
	}
	a := New()
	err := a.Add("k", v)
	if err != nil {
		vReach("rejected")
		if kind == 0 {
			vAssert(vOr(s > c10Max53, s < -c10Max53), "a nested signed integer within +/-(2^53-1) was rejected")
		} else {
			vAssert(u > uint64(c10Max53), "a nested unsigned integer within 2^53-1 was rejected")
		}
		return
	}
	vReach("stored")
	node, _ := a.GetNode("k")
	var leaf datamodel.Node
	if node.Kind() == datamodel.Kind_List {
		leaf, _ = node.LookupByIndex(0)
	} else {
		leaf, _ = node.LookupByString("n")
	}
	vAssert(leaf != nil && leaf.Kind() == datamodel.Kind_Int, "a nested integer was stored as another kind")
	if leaf == nil {
		return
	}
	got, gerr := leaf.AsInt()
	vAssert(gerr == nil, "a nested integer cannot be read back")
	if kind == 0 {
		vAssert(got == s, "a nested signed integer was silently altered")
	} else {
		vAssert(vAnd(got >= 0, uint64(got) == u), "a nested unsigned integer was silently altered")
	}
	vAssert(vAnd(got <= c10Max53, got >= -c10Max53), "a nested integer outside +/-(2^53-1) was accepted")
}
