//go:build verif

package token

import (
	"bytes"
	"errors"
	"io"

	"github.com/ucan-wg/go-ucan/token/internal/envelope"
	"github.com/ucan-wg/go-ucan/did"
	"github.com/ucan-wg/go-ucan/pkg/command"
	"github.com/ucan-wg/go-ucan/token/delegation"
)

var errC18 = errors.New("c18: injected I/O fault")

type c18Reader struct {
	data    []byte
	pos     int
	chunk   int
	cut     int
	fault   int // 0 none, 1 read error at cut, 2 early end at cut
	withEOF bool
}

func (r *c18Reader) Read(p []byte) (int, error) {
	if r.pos >= r.cut {
		if r.fault == 1 {
			return 0, errC18
		}
		return 0, io.EOF
	}
	n := len(p)
	if n > r.chunk {
		n = r.chunk
	}
	if n > r.cut-r.pos {
		n = r.cut - r.pos
	}
	copy(p, r.data[r.pos:r.pos+n])
	r.pos += n
	if r.pos >= r.cut && r.withEOF && r.fault != 1 {
		return n, io.EOF
	}
	return n, nil
}

type c18Sink struct {
	buf      bytes.Buffer
	okWrites int
	calls    int
	failed   bool
}

func (s *c18Sink) Write(p []byte) (int, error) {
	s.calls++
	if s.calls > s.okWrites {
		s.failed = true
		return 0, errC18
	}
	return s.buf.Write(p)
}

func c18Sealed(n int) []byte {
	b := make([]byte, n)
	for i := range b {
		b[i] = byte(i*11 + 5)
	}
	return b
}

// VerifC18SealedReader: FromSealedReader returns the token and the CID of
// exactly the bytes of the stream, however it is chunked; a read error or an
// early end of the stream gives an error, never a token or a CID. The
// DAG-CBOR/schema/signature layer below is a stand-in that consumes the
// stream like a decoder does and accepts exactly the expected bytes.
func VerifC18SealedReader() {
	n := []int{1, 5, 130}[vChoose("size", 3)]
	data := c18Sealed(n)
	bufSize := []int{1, 7, 512}[vChoose("decoder_bufsize", 3)]
	VStub_FromDagCborReader = func(r io.Reader) (Token, error) {
		var got []byte
		buf := make([]byte, bufSize)
		for {
			m, err := r.Read(buf)
			got = append(got, buf[:m]...)
			if err == io.EOF {
				break
			}
			if err != nil {
				return nil, err
			}
		}
		if !bytes.Equal(got, data) {
			return nil, errors.New("c18: truncated or altered token")
		}
		return delegation.VerifToken(did.VerifDID(1), did.VerifDID(2), did.Undef, command.Top(), nil, nil, nil), nil
	}
	chunk := []int{1, 3, 128, 1 << 20}[vChoose("chunk", 4)]
	withEOF := vChoose("data_with_eof", 2) == 1
	fault := vChoose("fault", 3)
	cut := n
	if fault != 0 {
		cut = vChoose("offset", n)
	}
	tkn, id, err := FromSealedReader(&c18Reader{data: data, chunk: chunk, cut: cut, fault: fault, withEOF: withEOF})
	if fault != 0 {
		vReach("fault")
		vAssert(err != nil, "a read error or early end of the stream was swallowed: FromSealedReader reports success")
		vAssert(tkn == nil && !id.Defined(), "FromSealedReader returns a token or a CID together with an error")
		return
	}
	vReach("intact")
	vAssert(err == nil && tkn != nil, "FromSealedReader fails on an intact stream")
	want, _ := envelope.CIDFromBytes(data)
	vAssert(id == want, "the CID of a token read from a stream differs from the CID of the same bytes read from memory")
}

