//go:build verif

package token

import (
	"bytes"

	"github.com/ipld/go-ipld-prime"
	"github.com/ipld/go-ipld-prime/codec/dagcbor"
	"github.com/ipld/go-ipld-prime/datamodel"
	"github.com/ipld/go-ipld-prime/fluent/qp"
	"github.com/ipld/go-ipld-prime/node/basicnode"

	"github.com/ucan-wg/go-ucan/did"
	"github.com/ucan-wg/go-ucan/pkg/command"
	"github.com/ucan-wg/go-ucan/token/delegation"
	"github.com/ucan-wg/go-ucan/token/internal/envelope"
)

// ---------------------------------------------------------------------------
// C08 — sealed bytes are canonical: two accepted byte strings that carry the
// same signed content have the same CID.
//
// The signature/schema layer (fromIPLD) is replaced by the idealised acceptor
// "the envelope's signature bytes and SigPayload are exactly the ones the
// issuer produced" — which is what verifying over the re-encoded SigPayload
// amounts to. The DAG-CBOR decoder (go-ipld-prime / refmt) is the real code
// and runs on the symbolic bytes.
// ---------------------------------------------------------------------------

func c08Signed() (sig []byte, sigPayload ipld.Node, env ipld.Node) {
	sig = []byte{0xAA, 0xBB}
	sigPayload, err := qp.BuildMap(basicnode.Prototype.Any, 2, func(ma datamodel.MapAssembler) {
		qp.MapEntry(ma, "h", qp.Bytes([]byte{0x34, 0xed, 0x01}))
		qp.MapEntry(ma, "ucan/dlg@1.0.0-rc.1", qp.Map(4, func(ma datamodel.MapAssembler) {
			qp.MapEntry(ma, "l", qp.List(2, func(la datamodel.ListAssembler) {
				qp.ListEntry(la, qp.Int(1))
				qp.ListEntry(la, qp.Int(24))
			}))
			qp.MapEntry(ma, "n", qp.Int(-3))
			qp.MapEntry(ma, "x", qp.Null())
			qp.MapEntry(ma, "iss", qp.String("did:key:zA"))
		}))
	})
	if err != nil {
		vSkip("unreachable: build failed")
	}
	env, err = qp.BuildList(basicnode.Prototype.Any, 2, func(la datamodel.ListAssembler) {
		qp.ListEntry(la, qp.Bytes(sig))
		qp.ListEntry(la, qp.Node(sigPayload))
	})
	if err != nil {
		vSkip("unreachable: build failed")
	}
	return sig, sigPayload, env
}

// VerifC08Canonical: FromSealed accepts, for given signed content, only its
// canonical encoding (and reports the CID of the bytes it was given).
func VerifC08Canonical() {
	sig0, sp0, env0 := c08Signed()
	canonical, err := ipld.Encode(env0, dagcbor.Encode)
	if err != nil {
		vSkip("unreachable: encode failed")
	}
	tkn := delegation.VerifToken(did.VerifDID(1), did.VerifDID(2), did.Undef, command.Top(), nil, nil, nil)
	var decoded ipld.Node
	VStub_fromIPLD = func(node datamodel.Node) (Token, error) {
		decoded = node
		sig, sp, ok := envelope.VerifSignedPart(node)
		if !ok || !bytes.Equal(sig, sig0) || !datamodel.DeepEqual(sp, sp0) {
			return nil, errC18
		}
		return tkn, nil
	}
	var data []byte
	class := vChoose("class", 6)
	switch class {
	case 0: // one byte replaced by 1..W arbitrary bytes, at any offset
		p := vChoose("offset", len(canonical))
		w := 1 + vChoose("window", vParam("W"))
		win := vBytes("win", w)
		if w == 1 {
			vAssume(win[0] != canonical[p])
		}
		for i := range win {
			// item heads that announce a 4- or 8-byte length would make the decoder
			// allocate what the following (concrete) bytes spell: outside the bound
			vAssume(vAnd(win[i]&0x1f != 26, win[i]&0x1f != 27))
		}
		data = append(append(append([]byte{}, canonical[:p]...), win...), canonical[p+1:]...)
		vReach("window")
	case 1: // an extra element appended to the outer list
		data = append(append([]byte{0x83}, canonical[1:]...), vU8("extra"))
		vReach("extra-element")
	case 2: // indefinite-length outer list
		data = append(append([]byte{0x9f}, canonical[1:]...), 0xff)
		vReach("indefinite")
	case 3: // the two SigPayload entries in the other order
		alt, err := qp.BuildMap(basicnode.Prototype.Any, 2, func(ma datamodel.MapAssembler) {
			it := sp0.MapIterator()
			var ks []string
			var vs []ipld.Node
			for !it.Done() {
				k, v, _ := it.Next()
				s, _ := k.AsString()
				ks, vs = append(ks, s), append(vs, v)
			}
			for i := len(ks) - 1; i >= 0; i-- {
				qp.MapEntry(ma, ks[i], qp.Node(vs[i]))
			}
		})
		if err != nil {
			vSkip("unreachable: build failed")
		}
		// encode the entries by hand in the swapped order: a2 <k2> <v2> <k1> <v1>
		body, _ := ipld.Encode(alt, dagcbor.Encode) // canonical again (the encoder sorts)
		_ = body
		h, _ := ipld.Encode(basicnode.NewString("h"), dagcbor.Encode)
		hv, _ := sp0.LookupByString("h")
		hvb, _ := ipld.Encode(hv, dagcbor.Encode)
		tg, _ := ipld.Encode(basicnode.NewString("ucan/dlg@1.0.0-rc.1"), dagcbor.Encode)
		pv, _ := sp0.LookupByString("ucan/dlg@1.0.0-rc.1")
		pvb, _ := ipld.Encode(pv, dagcbor.Encode)
		data = append([]byte{0x82, 0x42, 0xAA, 0xBB, 0xa2}, append(append(append(tg, pvb...), h...), hvb...)...)
		vReach("swapped-keys")
	case 4: // bytes after the complete envelope
		data = append(append([]byte{}, canonical...), vBytes("trailing", 1+vChoose("trailing_len", 2))...)
		vReach("trailing")
	default:
		data = canonical
		vReach("canonical")
	}
	vBudget(20000000)
	got, id, err := FromSealed(data)
	if err != nil {
		vReach("rejected")
		vAssert(!bytes.Equal(data, canonical), "the canonical sealed bytes are rejected")
		return
	}
	vReach("accepted")
	vAssert(got == Token(tkn), "FromSealed returns another token than the decoder produced")
	want, _ := envelope.CIDFromBytes(data)
	vAssert(id == want, "the CID reported by FromSealed is not the CID of the bytes it was given")
	vAssert(decoded != nil && decoded.Kind() == datamodel.Kind_List && decoded.Length() == 2, "an envelope with more than signature and SigPayload is accepted (bytes outside the signed part change the CID)")
	// known finding C08-F1: the lenient DAG-CBOR decoder maps several byte
	// strings to the same envelope; region = the bytes decode to exactly the
	// signed envelope
	// (bytes after the complete envelope are not an alternative item encoding: class 4 is outside the region)
	same := decoded != nil && datamodel.DeepEqual(decoded, env0) && class != 4
	vKnown("C08-F1", same)
	vAssert(vEqBytes(data, canonical), "a byte string other than the canonical encoding is accepted for the same signed content (same token, different CID)")
}
