//go:build verif

package policy

import (
	"math"

	"github.com/ipld/go-ipld-prime"
	"github.com/ipld/go-ipld-prime/datamodel"
	"github.com/ipld/go-ipld-prime/fluent/qp"
	"github.com/ipld/go-ipld-prime/node/basicnode"
)

// ---------------------------------------------------------------------------
// C11 — policy matching follows the policy-language semantics.
//
// The harness keeps its own view of the data (c11Data) and of the policy
// (c11Stmt) next to the real IPLD node / real Policy built through the
// exported constructors, and compares Policy.Match / PartialMatch with a
// classical evaluator over that view. Shapes (statement skeleton, selectors,
// kinds, presence of keys, list length) are enumerated with vChoose; every
// integer, float and string byte is a solver variable.
// ---------------------------------------------------------------------------

// value kinds of the harness view
const (
	c11KInt = iota
	c11KFloat
	c11KString
	c11KBool
	c11KNull
	c11KMapX // list element {x: int} or {} (x absent)
)

type c11Val struct {
	kind int
	i    int64
	f    float64
	s    string
	b    bool
	hasX bool // c11KMapX only
}

type c11Data struct {
	hasA, hasB, hasL bool
	a, b             c11Val
	l                []c11Val
}

func c11SymVal(tag string, kind int) c11Val {
	v := c11Val{kind: kind}
	switch kind {
	case c11KInt:
		v.i = vI64(tag + "_i")
	case c11KFloat:
		v.f = vF64(tag + "_f")
	case c11KString:
		v.s = vString(tag+"_s", 2)
	case c11KBool:
		v.b = vBool(tag + "_b")
	case c11KMapX:
		v.hasX = vChoose(tag+"_hasx", 2) == 1
		v.i = vI64(tag + "_x")
	}
	return v
}

func c11AssembleVal(v c11Val) qp.Assemble {
	switch v.kind {
	case c11KInt:
		return qp.Int(v.i)
	case c11KFloat:
		return qp.Float(v.f)
	case c11KString:
		return qp.String(v.s)
	case c11KBool:
		return qp.Bool(v.b)
	case c11KNull:
		return qp.Null()
	}
	return qp.Map(1, func(ma datamodel.MapAssembler) {
		if v.hasX {
			qp.MapEntry(ma, "x", qp.Int(v.i))
		}
	})
}

func (d *c11Data) node() ipld.Node {
	nd, err := qp.BuildMap(basicnode.Prototype.Any, 3, func(ma datamodel.MapAssembler) {
		if d.hasA {
			qp.MapEntry(ma, "a", c11AssembleVal(d.a))
		}
		if d.hasB {
			qp.MapEntry(ma, "b", c11AssembleVal(d.b))
		}
		if d.hasL {
			qp.MapEntry(ma, "l", qp.List(int64(len(d.l)), func(la datamodel.ListAssembler) {
				for _, e := range d.l {
					qp.ListEntry(la, c11AssembleVal(e))
				}
			}))
		}
	})
	if err != nil {
		vSkip("unreachable: data build failed")
	}
	return nd
}

// c11GenData: complete=true makes every key present.
//   AK: number of kinds the value under "a" ranges over (1..5)
//   LEN: maximal list length; EK: 0 = int elements, 1 = map elements {x?}
func c11GenData(complete bool, elemMaps bool) *c11Data {
	d := &c11Data{}
	d.hasA = complete || vChoose("has_a", 2) == 1
	d.hasB = complete || vParam("SELS") <= 4 || vChoose("has_b", 2) == 1
	d.hasL = complete || vChoose("has_l", 2) == 1
	if d.hasA {
		d.a = c11SymVal("a", vChoose("a_kind", vParam("AK")))
	}
	if d.hasB {
		d.b = c11SymVal("b", c11KInt)
	}
	if d.hasL {
		n := vChoose("l_len", vParam("LEN")+1)
		for i := 0; i < n; i++ {
			k := c11KInt
			if elemMaps {
				k = c11KMapX
			}
			d.l = append(d.l, c11SymVal("l"+string(rune('0'+i)), k))
		}
	}
	return d
}

// ---- statements ----

const (
	c11OpEq = iota
	c11OpLt
	c11OpLte
	c11OpGt
	c11OpGte
	c11OpLike
	c11OpNot
	c11OpAnd
	c11OpOr
	c11OpAll
	c11OpAny
)

type c11Stmt struct {
	op   int
	sel  string
	c    c11Val // constant of a comparison
	subs []*c11Stmt
}

func (s *c11Stmt) ctor() Constructor {
	cn := func() ipld.Node {
		switch s.c.kind {
		case c11KInt:
			return basicnode.NewInt(s.c.i)
		case c11KFloat:
			return basicnode.NewFloat(s.c.f)
		}
		return basicnode.NewString(s.c.s)
	}
	switch s.op {
	case c11OpEq:
		return Equal(s.sel, cn())
	case c11OpLt:
		return LessThan(s.sel, cn())
	case c11OpLte:
		return LessThanOrEqual(s.sel, cn())
	case c11OpGt:
		return GreaterThan(s.sel, cn())
	case c11OpGte:
		return GreaterThanOrEqual(s.sel, cn())
	case c11OpLike:
		return Like(s.sel, "a*")
	case c11OpNot:
		return Not(s.subs[0].ctor())
	case c11OpAnd, c11OpOr:
		var cs []Constructor
		for _, x := range s.subs {
			cs = append(cs, x.ctor())
		}
		if s.op == c11OpAnd {
			return And(cs...)
		}
		return Or(cs...)
	case c11OpAll:
		return All(s.sel, s.subs[0].ctor())
	}
	return Any(s.sel, s.subs[0].ctor())
}

func c11Policy(stmts ...*c11Stmt) Policy {
	var cs []Constructor
	for _, s := range stmts {
		cs = append(cs, s.ctor())
	}
	p, err := Construct(cs...)
	if err != nil {
		vSkip("unreachable: constructor failed")
	}
	return p
}

// c11GenLeaf: a comparison or like statement. sels: the selector texts to
// choose from.
func c11GenLeaf(tag string, sels []string) *c11Stmt {
	s := &c11Stmt{}
	nops := vParam("OPS") // comparison operators used, in the order of c11OpOrder
	k := nops
	if vParam("LIKE") == 1 {
		k++
	}
	if i := vChoose(tag+"_op", k); i < nops {
		s.op = c11OpOrder[i]
	} else {
		s.op = c11OpLike
	}
	ns := len(sels)
	if ns > vParam("SELS") {
		ns = vParam("SELS")
	}
	s.sel = sels[vChoose(tag+"_sel", ns)]
	if s.op != c11OpLike {
		s.c = c11SymVal(tag+"_c", vChoose(tag+"_ckind", vParam("CK")))
	}
	return s
}

var c11OpOrder = []int{c11OpEq, c11OpLt, c11OpGte, c11OpGt, c11OpLte, c11OpLike}
var c11TopSelsResolving = []string{".a", ".b", ".a?"}
var c11TopSelsAny = []string{".a", ".a?", ".m", ".m?", ".b", ".b?"}
var c11ListSelsAny = []string{".l", ".l?"}

// c11Gen: a statement nested to at most depth, all of whose selectors come
// from sels (top level) / {".", ".x", ".x?"} (under a quantifier).
func c11Gen(tag string, depth int, sels []string, lsels []string, elemSels []string) *c11Stmt {
	if depth == 0 {
		return c11GenLeaf(tag, sels)
	}
	nk := 6
	if len(lsels) == 0 {
		nk = 4
	}
	switch vChoose(tag+"_kind", nk) {
	case 0:
		return c11GenLeaf(tag, sels)
	case 1:
		return &c11Stmt{op: c11OpNot, subs: []*c11Stmt{c11Gen(tag+"n", depth-1, sels, lsels, elemSels)}}
	case 2, 3:
		op := c11OpAnd
		if vChoose(tag+"_or", 2) == 1 {
			op = c11OpOr
		}
		n := 1 + vChoose(tag+"_n", vParam("NOPS"))
		s := &c11Stmt{op: op}
		for i := 0; i < n; i++ {
			s.subs = append(s.subs, c11Gen(tag+string(rune('x'+i)), depth-1, sels, lsels, elemSels))
		}
		return s
	}
	op := c11OpAll
	if vChoose(tag+"_any", 2) == 1 {
		op = c11OpAny
	}
	return &c11Stmt{op: op, sel: lsels[vChoose(tag+"_lsel", len(lsels))],
		subs: []*c11Stmt{c11Gen(tag+"q", depth-1, elemSels, nil, nil)}}
}

// ---- classical evaluator over the harness view ----

func c11Finite(f float64) bool { return (math.Float64bits(f)>>52)&0x7ff != 0x7ff }
func c11NaN(f float64) bool {
	b := math.Float64bits(f)
	return vAnd((b>>52)&0x7ff == 0x7ff, b&(1<<52-1) != 0)
}
func c11NegZero(f float64) bool { return math.Float64bits(f) == 1<<63 }

// c11Select resolves one of the harness selectors against the view.
// status: 0 resolved, 1 missing (required), 2 missing (optional)
func c11Select(sel string, d *c11Data, cur *c11Val) (status int, v c11Val, list []c11Val, isList bool) {
	opt := sel[len(sel)-1] == '?'
	miss := 1
	if opt {
		miss = 2
	}
	name := sel
	if opt {
		name = sel[:len(sel)-1]
	}
	if cur != nil { // under a quantifier: ".", ".x"
		if name == "." {
			return 0, *cur, nil, false
		}
		if cur.kind == c11KMapX && cur.hasX {
			return 0, c11Val{kind: c11KInt, i: cur.i}, nil, false
		}
		return miss, c11Val{}, nil, false
	}
	switch name {
	case ".a":
		if d.hasA {
			return 0, d.a, nil, false
		}
	case ".b":
		if d.hasB {
			return 0, d.b, nil, false
		}
	case ".l":
		if d.hasL {
			return 0, c11Val{}, d.l, true
		}
	}
	return miss, c11Val{}, nil, false
}

// c11Cmp: the classical reading of a comparison of data value v against
// constant c. defined=false where the harness takes no stance (non-finite
// floats under an order, NaN / negative zero under ==).
func c11Cmp(op int, v, c c11Val) (res bool, defined bool) {
	if op == c11OpLike {
		if v.kind != c11KString {
			return false, true
		}
		return v.s[0] == 'a', true
	}
	if v.kind != c.kind {
		return false, true
	}
	switch v.kind {
	case c11KInt:
		switch op {
		case c11OpEq:
			return v.i == c.i, true
		case c11OpLt:
			return v.i < c.i, true
		case c11OpLte:
			return v.i <= c.i, true
		case c11OpGt:
			return v.i > c.i, true
		}
		return v.i >= c.i, true
	case c11KFloat:
		if op == c11OpEq {
			vAssume(vNot(vOr(c11NaN(v.f), c11NaN(c.f))))
			vAssume(vNot(vOr(c11NegZero(v.f), c11NegZero(c.f))))
			return v.f == c.f, true
		}
		// a NaN operand makes every order comparison false; +/-Inf: no stance
		vAssume(vOr(vOr(c11NaN(v.f), c11NaN(c.f)), vAnd(c11Finite(v.f), c11Finite(c.f))))
		switch op {
		case c11OpLt:
			return v.f < c.f, true
		case c11OpLte:
			return v.f <= c.f, true
		case c11OpGt:
			return v.f > c.f, true
		}
		return v.f >= c.f, true
	case c11KString:
		if op == c11OpEq {
			return v.s == c.s, true
		}
		return false, true // strings are not ordered by the policy language
	}
	return false, true
}

// c11Eval: classical truth of s; resolved=false if some selector it had to
// look at did not resolve (then the value is meaningless).
func c11Eval(s *c11Stmt, d *c11Data, cur *c11Val) (res bool, resolved bool) {
	switch s.op {
	case c11OpNot:
		r, ok := c11Eval(s.subs[0], d, cur)
		return vNot(r), ok
	case c11OpAnd:
		acc, all := true, true
		for _, x := range s.subs {
			r, ok := c11Eval(x, d, cur)
			acc = vAnd(acc, r)
			all = all && ok
		}
		return acc, all
	case c11OpOr:
		acc, all := false, true
		for _, x := range s.subs {
			r, ok := c11Eval(x, d, cur)
			acc = vOr(acc, r)
			all = all && ok
		}
		return acc, all
	case c11OpAll, c11OpAny:
		st, _, list, isList := c11Select(s.sel, d, cur)
		if st != 0 || !isList {
			return false, false
		}
		acc, all := s.op == c11OpAll, true
		for i := range list {
			r, ok := c11Eval(s.subs[0], d, &list[i])
			if s.op == c11OpAll {
				acc = vAnd(acc, r)
			} else {
				acc = vOr(acc, r)
			}
			all = all && ok
		}
		return acc, all
	}
	st, v, _, isList := c11Select(s.sel, d, cur)
	if st != 0 || isList {
		return false, false
	}
	r, _ := c11Cmp(s.op, v, s.c)
	return r, true
}

// VerifC11Classical: whenever every selector resolves, Match equals the
// classical truth of the conjunction of the statements.
func VerifC11Classical() {
	d := c11GenData(true, vParam("EK") == 1)
	elemSels := []string{"."}
	if vParam("EK") == 1 {
		elemSels = []string{".x", ".x?"}
		for i := range d.l {
			d.l[i].hasX = true
		}
	}
	n := 1 + vChoose("nstmts", vParam("T"))
	var stmts []*c11Stmt
	want := true
	for i := 0; i < n; i++ {
		s := c11Gen("s"+string(rune('0'+i)), vParam("DEPTH"), c11TopSelsResolving, []string{".l", ".l?"}, elemSels)
		stmts = append(stmts, s)
		r, ok := c11Eval(s, d, nil)
		if !ok {
			vSkip("a selector does not resolve")
		}
		want = vAnd(want, r)
	}
	pol := c11Policy(stmts...)
	node := d.node()
	got, _ := pol.Match(node)
	if got {
		vReach("match")
	} else {
		vReach("no-match")
	}
	vAssert(got == want, "Match differs from the classical truth of the statements although every selector resolves")
	pm, _ := pol.PartialMatch(node)
	vAssert(vImplies(got, pm), "a full match that is not a partial match")
}

// c11Swapped: the same statement with the operands of every and/or reversed.
func c11Reverse(s *c11Stmt) *c11Stmt {
	r := &c11Stmt{op: s.op, sel: s.sel, c: s.c}
	for i := len(s.subs) - 1; i >= 0; i-- {
		x := s.subs[i]
		if s.op == c11OpAnd || s.op == c11OpOr || s.op == c11OpNot || s.op == c11OpAll || s.op == c11OpAny {
			x = c11Reverse(x)
		}
		r.subs = append(r.subs, x)
	}
	return r
}

// VerifC11Order: the outcome of Match and PartialMatch does not depend on the
// order of the operands of and/or, nor on the order of the elements visited
// by all/any — whatever data is present, missing or optional.
func VerifC11Order() {
	elemMaps := vParam("EK") == 1
	d := c11GenData(false, elemMaps)
	elemSels := []string{"."}
	if elemMaps {
		elemSels = []string{".x", ".x?"}
	}
	s := c11Gen("s", vParam("DEPTH"), c11TopSelsAny, []string{".l", ".l?", ".m", ".m?"}, elemSels)
	if vChoose("under_not", 2) == 1 {
		// the four-valued results of and/or/all/any are only told apart under a not
		s = &c11Stmt{op: c11OpNot, subs: []*c11Stmt{s}}
	}
	pol := c11Policy(s)
	node := d.node()
	m1, _ := pol.Match(node)
	p1, _ := pol.PartialMatch(node)
	vReach("evaluated")
	// operand order
	pol2 := c11Policy(c11Reverse(s))
	m2, _ := pol2.Match(node)
	p2, _ := pol2.PartialMatch(node)
	vAssert(m1 == m2, "Match depends on the order of the operands of and/or")
	vAssert(p1 == p2, "PartialMatch depends on the order of the operands of and/or")
	// element order: reverse the list
	if d.hasL && len(d.l) > 1 {
		vReach("list-reversed")
		d2 := *d
		d2.l = nil
		for i := len(d.l) - 1; i >= 0; i-- {
			d2.l = append(d2.l, d.l[i])
		}
		node2 := d2.node()
		m3, _ := pol.Match(node2)
		p3, _ := pol.PartialMatch(node2)
		vAssert(m1 == m3, "Match depends on the order of the elements visited by all/any")
		vAssert(p1 == p3, "PartialMatch depends on the order of the elements visited by all/any")
	}
}

// VerifC11Mono: adding an operand to an and, or an element under all, never
// turns a failing match into a passing one.
func VerifC11Mono() {
	elemMaps := vParam("EK") == 1
	d := c11GenData(false, elemMaps)
	elemSels := []string{"."}
	if elemMaps {
		elemSels = []string{".x", ".x?"}
	}
	node := d.node()
	if vChoose("which", 2) == 0 {
		n := vChoose("n", vParam("NOPS")+1)
		small := &c11Stmt{op: c11OpAnd}
		for i := 0; i < n; i++ {
			small.subs = append(small.subs, c11Gen("o"+string(rune('0'+i)), vParam("DEPTH")-1, c11TopSelsAny, []string{".l", ".l?", ".m?"}, elemSels))
		}
		extra := c11Gen("y", vParam("DEPTH")-1, c11TopSelsAny, []string{".l", ".l?", ".m?"}, elemSels)
		big := &c11Stmt{op: c11OpAnd}
		pos := vChoose("pos", n+1)
		for i := 0; i <= n; i++ {
			if i == pos {
				big.subs = append(big.subs, extra)
			}
			if i < n {
				big.subs = append(big.subs, small.subs[i])
			}
		}
		ps, pb := c11Policy(small), c11Policy(big)
		ms, _ := ps.Match(node)
		mb, _ := pb.Match(node)
		qs, _ := ps.PartialMatch(node)
		qb, _ := pb.PartialMatch(node)
		vReach("and-extended")
		vAssert(vImplies(vNot(ms), vNot(mb)), "adding an operand to a failing and makes Match pass")
		vAssert(vImplies(vNot(qs), vNot(qb)), "adding an operand to a failing and makes PartialMatch pass")
		return
	}
	// all over a list, one more element
	if !d.hasL {
		vSkip("no list")
	}
	inner := c11Gen("q", vParam("DEPTH")-1, elemSels, nil, nil)
	st := &c11Stmt{op: c11OpAll, sel: c11ListSelsAny[vChoose("lsel", 2)], subs: []*c11Stmt{inner}}
	pol := c11Policy(st)
	k := c11KInt
	if elemMaps {
		k = c11KMapX
	}
	extra := c11SymVal("extra", k)
	d2 := *d
	d2.l = nil
	pos := vChoose("pos", len(d.l)+1)
	for i := 0; i <= len(d.l); i++ {
		if i == pos {
			d2.l = append(d2.l, extra)
		}
		if i < len(d.l) {
			d2.l = append(d2.l, d.l[i])
		}
	}
	node2 := d2.node()
	ms, _ := pol.Match(node)
	mb, _ := pol.Match(node2)
	qs, _ := pol.PartialMatch(node)
	qb, _ := pol.PartialMatch(node2)
	vReach("all-extended")
	vAssert(vImplies(vNot(ms), vNot(mb)), "adding an element under a failing all makes Match pass")
	vAssert(vImplies(vNot(qs), vNot(qb)), "adding an element under a failing all makes PartialMatch pass")
}

// VerifC11Concat: a full match implies a partial match, and matching the
// concatenation of two policies equals matching each of them.
func VerifC11Concat() {
	elemMaps := vParam("EK") == 1
	d := c11GenData(false, elemMaps)
	elemSels := []string{"."}
	if elemMaps {
		elemSels = []string{".x", ".x?"}
	}
	node := d.node()
	gen := func(tag string) []*c11Stmt {
		n := vChoose(tag+"_n", vParam("T")+1)
		var out []*c11Stmt
		for i := 0; i < n; i++ {
			out = append(out, c11Gen(tag+string(rune('0'+i)), vParam("DEPTH"), c11TopSelsAny, []string{".l", ".l?", ".m", ".m?"}, elemSels))
		}
		return out
	}
	s1, s2 := gen("p"), gen("q")
	p1, p2 := c11Policy(s1...), c11Policy(s2...)
	p12 := c11Policy(append(append([]*c11Stmt{}, s1...), s2...)...)
	m1, _ := p1.Match(node)
	m2, _ := p2.Match(node)
	m12, _ := p12.Match(node)
	q1, _ := p1.PartialMatch(node)
	q2, _ := p2.PartialMatch(node)
	q12, _ := p12.PartialMatch(node)
	vReach("evaluated")
	vAssert(vImplies(m1, q1), "a full match that is not a partial match")
	vAssert(m12 == vAnd(m1, m2), "Match of concatenated policies differs from matching each of them")
	vAssert(q12 == vAnd(q1, q2), "PartialMatch of concatenated policies differs from matching each of them")
}

// VerifC11TopLevel: a top-level statement whose required data is missing
// fails the full match but not the partial match; one over missing optional
// data passes.
func VerifC11TopLevel() {
	d := c11GenData(false, false)
	node := d.node()
	var s *c11Stmt
	var sel string
	if vChoose("quant", 2) == 0 {
		s = c11GenLeaf("s", c11TopSelsAny)
		sel = s.sel
	} else {
		op := c11OpAll
		if vChoose("any", 2) == 1 {
			op = c11OpAny
		}
		sel = []string{".l", ".l?", ".m", ".m?"}[vChoose("lsel", 4)]
		s = &c11Stmt{op: op, sel: sel, subs: []*c11Stmt{c11GenLeaf("q", []string{"."})}}
	}
	st, _, _, _ := c11Select(sel, d, nil)
	pol := c11Policy(s)
	m, _ := pol.Match(node)
	pm, _ := pol.PartialMatch(node)
	switch st {
	case 1:
		vReach("missing-required")
		vAssert(!m, "a top-level statement over missing required data passes the full match")
		vAssert(pm, "a top-level statement over missing required data fails the partial match")
	case 2:
		vReach("missing-optional")
		vAssert(m, "a top-level statement over missing optional data fails the full match")
		vAssert(pm, "a top-level statement over missing optional data fails the partial match")
	default:
		vReach("present")
		vAssert(vImplies(m, pm), "a full match that is not a partial match")
	}
}
