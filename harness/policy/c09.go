//go:build verif

package policy

import (
	"github.com/ipld/go-ipld-prime"
	"github.com/ipld/go-ipld-prime/datamodel"
	"github.com/ipld/go-ipld-prime/fluent/qp"
	"github.com/ipld/go-ipld-prime/node/basicnode"

	"github.com/ucan-wg/go-ucan/pkg/policy/limits"
)

// c09Num: an integer node as DAG-CBOR decoding produces it: a plain int, or
// (for values that do not fit int64) basicnode's unsigned integer node.
func c09Num(tag string) ipld.Node {
	if vChoose(tag+"_uint", 2) == 1 {
		return basicnode.NewUint(vU64(tag + "_u"))
	}
	return basicnode.NewInt(vI64(tag + "_i"))
}

// VerifC09MatchNumbers: matching a policy against argument data whose integers
// are arbitrary 64-bit values (signed or unsigned nodes) never panics, and
// neither does the integer bound validation of policies and values.
func VerifC09MatchNumbers() {
	a := c09Num("a")
	c := c09Num("c")
	data, err := qp.BuildMap(basicnode.Prototype.Any, 2, func(ma datamodel.MapAssembler) {
		qp.MapEntry(ma, "a", qp.Node(a))
		qp.MapEntry(ma, "l", qp.List(1, func(la datamodel.ListAssembler) { qp.ListEntry(la, qp.Node(a)) }))
	})
	if err != nil {
		vSkip("unreachable: build failed")
	}
	var ctor Constructor
	switch vChoose("op", 7) {
	case 0:
		ctor = Equal(".a", c)
	case 1:
		ctor = LessThan(".a", c)
	case 2:
		ctor = LessThanOrEqual(".a", c)
	case 3:
		ctor = GreaterThan(".a", c)
	case 4:
		ctor = GreaterThanOrEqual(".a", c)
	case 5:
		ctor = All(".l", GreaterThan(".", c))
	default:
		ctor = Not(LessThan(".l[0]", c))
	}
	pol, err := Construct(ctor)
	if err != nil {
		vSkip("unreachable: constructor failed")
	}
	vBudget(2000000)
	_, _ = pol.Match(data)
	_, _ = pol.PartialMatch(data)
	vReach("matched")
	_ = limits.ValidateIntegerBoundsIPLD(data)
	vReach("validated-data")
	// the same constant inside a policy document read from IPLD
	doc, err := qp.BuildList(basicnode.Prototype.Any, 1, func(la datamodel.ListAssembler) {
		qp.ListEntry(la, qp.List(3, func(la datamodel.ListAssembler) {
			qp.ListEntry(la, qp.String(">"))
			qp.ListEntry(la, qp.String(".a"))
			qp.ListEntry(la, qp.Node(c))
		}))
	})
	if err != nil {
		vSkip("unreachable: build failed")
	}
	p2, err := FromIPLD(doc)
	if err == nil {
		vReach("policy-accepted")
		_, _ = p2.Match(data)
	} else {
		vReach("policy-rejected")
	}
}

var c09Strings = []string{"==", "<", "<=", ">", ">=", "not", "and", "or", "like", "all", "any", "zz", ".", ".a", ".a?", ".l[0]", ".[", "a*", "a\\"}

var c09ArgStrings = []string{".a", ".[", "a*", "a\\", "zz", "=="}

// c09Node: an arbitrary IPLD tree (every kind, lists of 0..3, maps of 0..1).
func c09Node(tag string, depth int) ipld.Node {
	nk := 9
	if depth == 0 {
		nk = 7
	}
	switch vChoose(tag+"_k", nk) {
	case 0:
		return datamodel.Null
	case 1:
		return basicnode.NewBool(vBool(tag + "_b"))
	case 2:
		return basicnode.NewInt(vI64(tag + "_i"))
	case 3:
		return basicnode.NewUint(vU64(tag + "_u"))
	case 4:
		return basicnode.NewFloat(vF64(tag + "_f"))
	case 5:
		return basicnode.NewString(c09ArgStrings[vChoose(tag+"_s", len(c09ArgStrings))])
	case 6:
		return basicnode.NewBytes(vBytes(tag+"_y", 1))
	case 7:
		n := vChoose(tag+"_n", 4)
		items := make([]ipld.Node, n)
		for i := range items {
			items[i] = c09Node(tag+string(rune('a'+i)), depth-1)
		}
		nd, err := qp.BuildList(basicnode.Prototype.Any, int64(n), func(la datamodel.ListAssembler) {
			for _, it := range items {
				qp.ListEntry(la, qp.Node(it))
			}
		})
		if err != nil {
			vSkip("unreachable: build failed")
		}
		return nd
	}
	v := c09Node(tag+"m", depth-1)
	nd, err := qp.BuildMap(basicnode.Prototype.Any, 1, func(ma datamodel.MapAssembler) {
		qp.MapEntry(ma, "k", qp.Node(v))
	})
	if err != nil {
		vSkip("unreachable: build failed")
	}
	return nd
}

// VerifC09PolicyShapes: any IPLD node offered as a policy is decoded or
// rejected, and a decoded policy matches any data without panicking.
func VerifC09PolicyShapes() {
	// a statement-shaped list with arbitrary members, so that decoding goes deep
	op := basicnode.NewString(c09Strings[vChoose("op", 12)])
	n := 1 + vChoose("arity", vParam("ARITY"))
	members := []ipld.Node{op}
	for i := 0; i < n; i++ {
		members = append(members, c09Node("m"+string(rune('0'+i)), vParam("DEPTH")))
	}
	stmt, err := qp.BuildList(basicnode.Prototype.Any, int64(len(members)), func(la datamodel.ListAssembler) {
		for _, m := range members {
			qp.ListEntry(la, qp.Node(m))
		}
	})
	if err != nil {
		vSkip("unreachable: build failed")
	}
	var doc ipld.Node = stmt
	if vChoose("wrapped", 2) == 1 {
		doc, err = qp.BuildList(basicnode.Prototype.Any, 1, func(la datamodel.ListAssembler) { qp.ListEntry(la, qp.Node(stmt)) })
		if err != nil {
			vSkip("unreachable: build failed")
		}
	}
	vBudget(3000000)
	pol, err := FromIPLD(doc)
	if err != nil {
		vReach("rejected")
		return
	}
	vReach("accepted")
	a := c09Num("a")
	data, err := qp.BuildMap(basicnode.Prototype.Any, 2, func(ma datamodel.MapAssembler) {
		qp.MapEntry(ma, "a", qp.Node(a))
		qp.MapEntry(ma, "l", qp.List(1, func(la datamodel.ListAssembler) { qp.ListEntry(la, qp.Node(a)) }))
	})
	if err != nil {
		vSkip("unreachable: build failed")
	}
	_, _ = pol.Match(data)
	_, _ = pol.PartialMatch(data)
	_, _ = pol.ToIPLD()
	_ = pol.String()
}
