//go:build verif

package policy

import (
	"github.com/ipld/go-ipld-prime"
	"github.com/ipld/go-ipld-prime/datamodel"
	"github.com/ipld/go-ipld-prime/fluent/qp"
	"github.com/ipld/go-ipld-prime/node/basicnode"
)

const c14Max53 = int64(1)<<53 - 1

func c14Int(tag string) int64 {
	v := vI64(tag)
	vAssume(v <= c14Max53)
	vAssume(v >= -c14Max53)
	return v
}

func c14List(items ...ipld.Node) ipld.Node {
	nd, err := qp.BuildList(basicnode.Prototype.Any, int64(len(items)), func(la datamodel.ListAssembler) {
		for _, it := range items {
			qp.ListEntry(la, qp.Node(it))
		}
	})
	if err != nil {
		vSkip("unreachable: list build failed")
	}
	return nd
}

var c14SelTexts = []string{".", ".a?", ".b[0]", "a", ".."}

// c14StmtNode: an IPLD node offered as a statement: a list whose operator is an
// arbitrary short string, with arguments of right and wrong kinds.
func c14StmtNode(depth int) ipld.Node {
	var op ipld.Node
	if vBool("op_is_string") {
		op = basicnode.NewString(vString("op", 1+vChoose("oplen", 4)))
	} else {
		op = basicnode.NewInt(1)
	}
	arg := func(tag string) ipld.Node {
		switch vChoose(tag+"_kind", 6) {
		case 5: // a well-formed statement (so that quantifier / connective bodies are valid even without nesting)
			return c14List(basicnode.NewString("=="), basicnode.NewString(".a"), basicnode.NewInt(1))
		case 0:
			return basicnode.NewString(c14SelTexts[vChoose(tag+"_sel", len(c14SelTexts))])
		case 1:
			return basicnode.NewInt(c14Int(tag + "_int"))
		case 2:
			if depth > 0 {
				return c14StmtNode(depth - 1)
			}
			return c14List()
		case 3:
			if depth > 0 {
				return c14List(c14StmtNode(depth - 1))
			}
			return c14List()
		}
		return basicnode.NewString("a*\\*")
	}
	switch vChoose("arity", 4) {
	case 0:
		return c14List(op)
	case 1:
		return c14List(op, arg("a1"))
	case 2:
		return c14List(op, arg("a1"), arg("a2"))
	}
	return c14List(op, arg("a1"), arg("a2"), basicnode.NewInt(0))
}

// VerifC14PolicyNode: a node read as a policy and written back is deep-equal.
func VerifC14PolicyNode() {
	n := vChoose("nstmts", vParam("NS")+1)
	var stmts []ipld.Node
	for i := 0; i < n; i++ {
		stmts = append(stmts, c14StmtNode(vParam("DEPTH")))
	}
	node := c14List(stmts...)
	pol, err := FromIPLD(node)
	if err != nil {
		vReach("rejected")
		return
	}
	vReach("accepted")
	back, err := pol.ToIPLD()
	vAssert(err == nil, "a policy read from IPLD cannot be written back")
	if err != nil {
		return
	}
	vAssert(datamodel.DeepEqual(back, node), "a policy read from IPLD and written back is not deep-equal to the original")
}

// c14Ctor: one of the statement skeletons, integer constants symbolic.
func c14Ctor(tag string, depth int) Constructor {
	k := vChoose(tag+"_kind", 9)
	c := func() ipld.Node { return basicnode.NewInt(c14Int(tag + "_c")) }
	switch k {
	case 0:
		return Equal(".a", c())
	case 1:
		return GreaterThan(".b", c())
	case 2:
		return LessThanOrEqual(".a?", c())
	case 3:
		return Like(".s", "a*")
	case 4:
		if depth > 0 {
			return Not(c14Ctor(tag+"n", depth-1))
		}
		return Not(Equal(".b", c()))
	case 5:
		if depth > 0 {
			return And(c14Ctor(tag+"x", depth-1), c14Ctor(tag+"y", depth-1))
		}
		return And()
	case 6:
		if depth > 0 {
			return Or(c14Ctor(tag+"x", depth-1), c14Ctor(tag+"y", depth-1))
		}
		return Or()
	case 7:
		return All(".l", GreaterThanOrEqual(".", c()))
	}
	return Any(".l", LessThan(".", c()))
}

func c14Data() ipld.Node {
	a, b, l0, l1 := c14Int("d_a"), c14Int("d_b"), c14Int("d_l0"), c14Int("d_l1")
	hasA := vBool("d_has_a")
	s := "zz"
	if vBool("d_s_matches") {
		s = "ab"
	}
	nd, err := qp.BuildMap(basicnode.Prototype.Any, 4, func(ma datamodel.MapAssembler) {
		if hasA {
			qp.MapEntry(ma, "a", qp.Int(a))
		}
		qp.MapEntry(ma, "b", qp.Int(b))
		qp.MapEntry(ma, "s", qp.String(s))
		qp.MapEntry(ma, "l", qp.List(2, func(la datamodel.ListAssembler) {
			qp.ListEntry(la, qp.Int(l0))
			qp.ListEntry(la, qp.Int(l1))
		}))
	})
	if err != nil {
		vSkip("unreachable: data build failed")
	}
	return nd
}

// VerifC14PolicyRoundTrip: a constructed policy survives an IPLD round trip
// with identical matching behaviour.
func VerifC14PolicyRoundTrip() {
	n := 1 + vChoose("nstmts", vParam("T"))
	var ctors []Constructor
	for i := 0; i < n; i++ {
		ctors = append(ctors, c14Ctor("s", vParam("DEPTH")))
	}
	pol, err := Construct(ctors...)
	if err != nil {
		vSkip("unreachable: constructor failed")
	}
	node, err := pol.ToIPLD()
	vAssert(err == nil, "a constructed policy cannot be written to IPLD")
	if err != nil {
		return
	}
	back, err := FromIPLD(node)
	vAssert(err == nil, "a constructed policy written to IPLD cannot be read back")
	if err != nil {
		return
	}
	node2, err := back.ToIPLD()
	vAssert(err == nil && datamodel.DeepEqual(node, node2), "IPLD form changes across a round trip")
	d := c14Data()
	m1, _ := pol.Match(d)
	m2, _ := back.Match(d)
	p1, _ := pol.PartialMatch(d)
	p2, _ := back.PartialMatch(d)
	vReach("round-tripped")
	vAssert(m1 == m2, "Match differs after an IPLD round trip")
	vAssert(p1 == p2, "PartialMatch differs after an IPLD round trip")
}
