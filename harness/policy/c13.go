//go:build verif

package policy

import (
	"github.com/ipld/go-ipld-prime/node/basicnode"
)

// c13Ref decides membership of s in the glob language of p with a token-wise
// dynamic program. Only the pattern's escape structure forks; the string side
// is a pure term (vAnd/vOr), so the reference adds no paths per string byte.
func c13Ref(p string, s string) (match bool, valid bool) {
	type tok struct {
		star bool
		lit  byte
	}
	var toks []tok
	for i := 0; i < len(p); i++ {
		if p[i] == '\\' {
			if i+1 >= len(p) {
				return false, false
			}
			toks = append(toks, tok{false, p[i+1]})
			i++
		} else if p[i] == '*' {
			toks = append(toks, tok{true, 0})
		} else {
			toks = append(toks, tok{false, p[i]})
		}
	}
	n := len(s)
	dp := make([]bool, n+1)
	dp[0] = true
	for k := 0; k < len(toks); k++ {
		nd := make([]bool, n+1)
		if toks[k].star {
			acc := false
			for j := 0; j <= n; j++ {
				acc = vOr(acc, dp[j])
				nd[j] = acc
			}
		} else {
			for j := 1; j <= n; j++ {
				nd[j] = vAnd(dp[j-1], toks[k].lit == s[j-1])
			}
		}
		dp = nd
	}
	return dp[n], true
}

// VerifC13Glob: parseGlob + glob.Match against the glob language, every byte
// of pattern and string symbolic (0..255), lengths 0..P / 0..S.
func VerifC13Glob() {
	pl := vChoose("plen", vParam("P")+1)
	sl := vChoose("slen", vParam("S")+1)
	p := vString("p", pl)
	s := vString("s", sl)
	want, valid := c13Ref(p, s)
	g, err := parseGlob(p)
	if !valid {
		vReach("invalid-pattern")
		vAssert(err != nil, "a pattern ending in a lone backslash must be rejected")
		return
	}
	vAssert(err == nil, "a well-formed pattern was rejected")
	if err != nil {
		return
	}
	got := g.Match(s)
	if got {
		vReach("match")
	} else {
		vReach("nomatch")
	}
	vAssert(got == want, "glob match differs from the glob language")
}

// VerifC13Like: the same through the exported path: policy.Like + Policy.Match
// on a string node; additionally a non-string value never matches.
func VerifC13Like() {
	pl := vChoose("plen", vParam("P")+1)
	sl := vChoose("slen", vParam("S")+1)
	p := vString("p", pl)
	s := vString("s", sl)
	want, valid := c13Ref(p, s)
	pol, err := Construct(Like(".", p))
	if !valid {
		vReach("invalid-pattern")
		vAssert(err != nil, "Like accepted a pattern ending in a lone backslash")
		return
	}
	vAssert(err == nil, "Like rejected a well-formed pattern")
	if err != nil {
		return
	}
	ok, _ := pol.Match(basicnode.NewString(s))
	if ok {
		vReach("match")
	} else {
		vReach("nomatch")
	}
	vAssert(ok == want, "like statement differs from the glob language")
	okInt, _ := pol.Match(basicnode.NewInt(7))
	vAssert(!okInt, "like matched a non-string value")
}
