//go:build verif

package invocation

import (
	"github.com/ucan-wg/go-ucan/pkg/command"
)

// VerifC02: allowed => every link's command covers the command below it
// (segment-prefix relation computed by an independent segmentation).
func VerifC02() {
	vClockSec()
	N, L := vParam("N"), vParam("L")
	n := 1 + vChoose("n", N)
	invIss, sub, links := verifConformingLinks(n)
	// n+1 command texts: index 0 = invocation, i+1 = link i
	texts := make([]string, n+1)
	for i := range texts {
		l := 1 + vChoose("cmdlen", L)
		texts[i] = vString("cmd", l)
		vAssume(verifValidCmdText(texts[i]))
	}
	for i := 0; i < n; i++ {
		links[i].cmd = command.Command(texts[i+1])
	}
	ch := &verifChain{links: links, cids: verifCids(n)}
	inv := verifInvocation(invIss, sub, sub, command.Command(texts[0]), nil, ch.cids, nil)
	err := inv.ExecutionAllowed(ch.loader())
	if err != nil {
		vReach("denied")
		return
	}
	vReach("allowed")
	segs := make([][]string, n+1)
	for i := range texts {
		segs[i] = verifSegs(texts[i])
	}
	ok := true
	for i := 0; i < n; i++ {
		ok = vAnd(ok, verifSegPrefix(segs[i+1], segs[i]))
	}
	vAssert(ok, "allowed although a link (or the invocation) widens the command it received")
}
