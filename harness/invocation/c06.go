//go:build verif

package invocation

import (
	"errors"

	"github.com/ipld/go-ipld-prime"
	"github.com/ipld/go-ipld-prime/codec/dagcbor"
	"github.com/ipld/go-ipld-prime/datamodel"
	"github.com/ipld/go-ipld-prime/fluent/qp"
	"github.com/ipld/go-ipld-prime/node/basicnode"
	"github.com/ipld/go-ipld-prime/schema"
	"github.com/libp2p/go-libp2p/core/crypto"
	"github.com/libp2p/go-libp2p/core/crypto/pb"

	"github.com/ucan-wg/go-ucan/did"
	"github.com/ucan-wg/go-ucan/token/internal/envelope"
	"github.com/ucan-wg/go-ucan/token/internal/varsig"
)

// ---------------------------------------------------------------------------
// C06 — a decoded token was signed by its issuer over exactly the decoded
// content. The signature scheme is idealised: the issuer's key accepts
// exactly one (message, signature) pair — the canonical encoding of the
// SigPayload that was signed, with the signature that was made. bindnode (the
// reflection-driven schema layer) is replaced by a pass-through. What is
// decided is the envelope logic: which key is asked, with which scheme header,
// over which bytes, how often, and what is done with the answer.
// ---------------------------------------------------------------------------

const c06IssA = "did:key:z6MkvJPmEZZYbgiw1ouT1oouTsTFBHJSts9ophVsNgcRmYxU"
const c06IssB = "did:key:z6Mkq5YmbJcTrPExNDi26imrTCpKhepjBFBSHqrBDN2ArPkv"

// an X25519 (key agreement) identifier: not a key that can sign
const c06IssX = "did:key:z6LSbk7MN8NDFRJBo2wkq5sYG4XonrAvuJVkS4NaaDcbD6Th"

type c06Proto struct{}

func (c06Proto) NewBuilder() datamodel.NodeBuilder       { return basicnode.Prototype.Any.NewBuilder() }
func (c06Proto) Type() schema.Type                       { return nil }
func (c06Proto) Representation() datamodel.NodePrototype { return basicnode.Prototype.Any }

type c06Key struct {
	owner did.DID
	kt    pb.KeyType
}

var c06 struct {
	signedData, signedSig []byte
	mode                  int // 0 ideal scheme, 1 Verify answers (true, error), 2 Verify answers (false, nil)
	calls                 int
	askedDIDs             []did.DID
	lastData, lastSig     []byte
	lastAnswer            bool
	unwrapped             []ipld.Node
}

var errC06 = errors.New("c06: verification error")

func (k c06Key) Equals(o crypto.Key) bool { return false }
func (k c06Key) Raw() ([]byte, error)     { return nil, nil }
func (k c06Key) Type() pb.KeyType         { return k.kt }
func (k c06Key) Verify(data, sig []byte) (bool, error) {
	c06.calls++
	c06.lastData, c06.lastSig = append([]byte{}, data...), append([]byte{}, sig...)
	switch c06.mode {
	case 1:
		return true, errC06
	case 2:
		return false, nil
	}
	ok := len(data) == len(c06.signedData) && len(sig) == len(c06.signedSig) && vConcBool(vAnd(vEqBytes(data, c06.signedData), vEqBytes(sig, c06.signedSig)))
	c06.lastAnswer = ok
	return ok, nil
}

func c06Envelope(sig []byte, hKey string, h []byte, tag string, iss string, cmd string, extra bool) (env ipld.Node, sigPayload ipld.Node) {
	sigPayload, err := qp.BuildMap(basicnode.Prototype.Any, 3, func(ma datamodel.MapAssembler) {
		qp.MapEntry(ma, hKey, qp.Bytes(h))
		qp.MapEntry(ma, tag, qp.Map(2, func(ma datamodel.MapAssembler) {
			qp.MapEntry(ma, "iss", qp.String(iss))
			qp.MapEntry(ma, "cmd", qp.String(cmd))
		}))
		if extra {
			qp.MapEntry(ma, "x", qp.Int(1))
		}
	})
	if err != nil {
		vSkip("unreachable: build failed")
	}
	env, err = qp.BuildList(basicnode.Prototype.Any, 2, func(la datamodel.ListAssembler) {
		qp.ListEntry(la, qp.Bytes(sig))
		qp.ListEntry(la, qp.Node(sigPayload))
	})
	if err != nil {
		vSkip("unreachable: build failed")
	}
	return env, sigPayload
}

func c06Encode(n ipld.Node) []byte {
	b, err := ipld.Encode(n, dagcbor.Encode)
	if err != nil {
		vSkip("unreachable: encode failed")
	}
	return b
}

// VerifC06Envelope: the decoder returns a token only if the issuer's key (the
// one in the decoded payload's iss) verified the envelope's signature over the
// canonical encoding of the very SigPayload that was decoded, under the scheme
// header of that key's type — also after other tokens were decoded before.
func VerifC06Envelope() {
	kts := []pb.KeyType{pb.KeyType_Ed25519, pb.KeyType_RSA, pb.KeyType_Secp256k1, pb.KeyType_ECDSA}
	kt := kts[vChoose("keytype", 4)]
	c06.mode = vChoose("verify_mode", 3)
	c06.calls, c06.askedDIDs, c06.unwrapped = 0, nil, nil
	VStub_tokenPayloadModel_Prototype = func(*tokenPayloadModel) schema.TypedPrototype { return c06Proto{} }
	envelope.VCall_bindnode_Unwrap = func(n datamodel.Node) interface{} {
		c06.unwrapped = append(c06.unwrapped, n)
		return &tokenPayloadModel{}
	}
	did.VStub_DID_PubKey = func(d did.DID) (crypto.PubKey, error) {
		c06.askedDIDs = append(c06.askedDIDs, d)
		if vBool("pubkey_fails") {
			return nil, errC06
		}
		return c06Key{owner: d, kt: kt}, nil
	}
	hdr, err := varsig.Encode(kt)
	if err != nil {
		vSkip("unreachable: no header for key type")
	}
	// what the issuer signed
	sig0 := vBytes("sig0", 3)
	cmd0 := vString("cmd0", 2)
	// the issuer may have signed a SigPayload with any header (e.g. one that announces another scheme)
	h0 := hdr
	if vChoose("signed_header_is_foreign", 2) == 1 {
		h0 = vBytes("h0", []int{len(hdr), len(hdr) - 1, 0, len(hdr) + 1}[vChoose("h0_len", 4)])
	}
	iss0 := []string{c06IssA, c06IssX}[vChoose("iss0", 2)]
	env0, sp0 := c06Envelope(sig0, envelope.VarsigHeaderKey, h0, Tag, iss0, cmd0, false)
	c06.signedData, c06.signedSig = c06Encode(sp0), sig0

	if vChoose("honest_first", 2) == 1 {
		tkn, err := envelope.FromIPLD[*tokenPayloadModel](env0)
		if c06.mode == 0 && len(c06.askedDIDs) == 1 && c06.calls == 1 && vConcBool(vEqBytes(h0, hdr)) && iss0 == c06IssA {
			vReach("honest-decoded")
			vAssert(err == nil && tkn != nil, "the honest token is rejected although the issuer's key verifies it")
		}
		c06.calls, c06.askedDIDs, c06.unwrapped = 0, nil, nil
	}

	// what is presented
	sig1 := vBytes("sig1", 3)
	cmd1 := vString("cmd1", 2)
	h1 := vBytes("h1", []int{len(hdr), len(hdr) - 1, 0, len(hdr) + 1}[vChoose("h1_len", 4)])
	iss1 := []string{c06IssA, c06IssB, c06IssX}[vChoose("iss1", 3)]
	env1, sp1 := c06Envelope(sig1, envelope.VarsigHeaderKey, h1, Tag, iss1, cmd1, false)
	tkn, err := envelope.FromIPLD[*tokenPayloadModel](env1)
	if err != nil {
		vReach("rejected")
		vAssert(tkn == nil, "the decoder returns a token together with an error")
		return
	}
	vReach("accepted")
	vAssert(iss1 != c06IssX, "a token is returned whose issuer identifier does not hold a signing key (X25519)")
	vAssert(c06.mode == 0, "a token is returned although the key's Verify did not answer (true, nil)")
	vAssert(c06.calls == 1, "a token is returned without asking the issuer's key exactly once")
	if c06.calls != 1 {
		return
	}
	vAssert(c06.lastAnswer, "a token is returned although verification failed")
	presented := c06Encode(sp1)
	vAssert(vEqBytes(c06.lastData, presented), "the signature was verified over other bytes than the canonical encoding of the decoded header and payload")
	vAssert(vEqBytes(c06.lastSig, sig1), "another signature than the envelope's was verified")
	vAssert(vEqBytes(presented, c06.signedData) && vEqBytes(sig1, c06.signedSig), "a token is accepted whose content differs from what the issuer signed")
	want, _ := did.Parse(iss1)
	vAssert(len(c06.askedDIDs) == 1 && c06.askedDIDs[0] == want, "the key that verified is not the key of the decoded payload's issuer")
	vAssert(vEqBytes(h1, hdr), "the envelope header is not the signature scheme header of the issuer's key type")
	vAssert(len(c06.unwrapped) == 1, "the payload was not bound exactly once")
	if len(c06.unwrapped) == 1 {
		pl, _ := sp1.LookupByString(Tag)
		vAssert(datamodel.DeepEqual(c06.unwrapped[0], pl), "the token is built from another node than the payload inside the verified SigPayload")
	}
}
