//go:build verif

package invocation

import (
	"time"

	"github.com/ipld/go-ipld-prime/datamodel"
	"github.com/ipld/go-ipld-prime/fluent/qp"
	"github.com/ipld/go-ipld-prime/node/basicnode"

	"github.com/ucan-wg/go-ucan/did"
	"github.com/ucan-wg/go-ucan/pkg/args"
	"github.com/ucan-wg/go-ucan/pkg/command"
	"github.com/ucan-wg/go-ucan/pkg/meta"
	"github.com/ucan-wg/go-ucan/pkg/policy"
	"github.com/ucan-wg/go-ucan/token/delegation"
)

var c20Perms = [][]int{{}, {0}, {0, 1}, {1, 0}, {0, 1, 2}, {0, 2, 1}, {1, 0, 2}, {1, 2, 0}, {2, 0, 1}, {2, 1, 0}}

// c20Order: 0..K distinct keys in any insertion order.
func c20Order(tag string, K int) []string {
	names := []string{"a", "b", "c"}
	hi := map[int]int{0: 1, 1: 2, 2: 4, 3: 10}[K]
	p := c20Perms[vChoose(tag, hi)]
	var out []string
	for _, i := range p {
		out = append(out, names[i])
	}
	return out
}

func c20Int(tag string) int64 {
	v := vI64(tag)
	vAssume(v <= 1<<53-1)
	vAssume(v >= -(1<<53 - 1))
	return v
}

// VerifC20: no read-only operation stores into memory reachable from the
// invocation or from the (shared) delegations of its chain, whatever order
// the argument / metadata keys were inserted in; and running the operation a
// second time gives the same outcome. Non-interference with the shared state
// is what makes every interleaving of such operations race-free.
func VerifC20() {
	vNow(1700000000, 0)
	n := 1 + vChoose("links", vParam("N"))
	invIss, sub, links := verifConformingLinks(n)
	// policies held in slices with spare capacity, as a caller-built policy may be
	for i := range links {
		if k := vChoose("pol"+string(rune('0'+i)), 2); k > 0 {
			ctor := policy.GreaterThanOrEqual(".a?", basicnode.NewInt(c20Int("c"+string(rune('0'+i)))))
			p, err := policy.Construct(ctor)
			if err != nil {
				vSkip("unreachable: constructor failed")
			}
			spare := make(policy.Policy, 0, 4)
			links[i].pol = append(spare, p...)
		}
	}
	a := args.New()
	for _, k := range c20Order("arg_order", vParam("K")) {
		if err := a.Add(k, c20Int("arg_"+k)); err != nil {
			vSkip("unreachable: Add failed")
		}
	}
	m := meta.NewMeta()
	for _, k := range c20Order("meta_order", vParam("K")) {
		if err := m.Add(k, c20Int("meta_"+k)); err != nil {
			vSkip("unreachable: Add failed")
		}
	}
	ch := &verifChain{links: links, cids: verifCids(n)}
	inv := verifInvocation(invIss, sub, did.Undef, command.Top(), a, ch.cids, nil)
	inv.meta = m
	ld := ch.loader()
	for _, d := range ld.dlgs {
		delegation.VerifSetMeta(d, m.Clone())
	}
	roots := []any{inv}
	for _, d := range ld.dlgs {
		roots = append(roots, d)
	}
	vFreeze(roots...)

	op := vChoose("op", 11)
	run := func() (ok bool, text string) {
		switch op {
		case 0:
			return inv.ExecutionAllowed(ld) == nil, ""
		case 1:
			err := inv.ExecutionAllowedWithArgsHook(ld, func(ro args.ReadOnly) (*args.Args, error) { return ro.WriteableClone(), nil })
			return err == nil, ""
		case 2:
			return true, inv.Arguments().String()
		case 3:
			_, err := inv.Arguments().ToIPLD()
			return err == nil, ""
		case 4:
			cnt := 0
			for range inv.Arguments().Iter() {
				cnt++
			}
			return cnt == len(a.Keys), ""
		case 5:
			return inv.Arguments().Equals(inv.Arguments()), ""
		case 6:
			_ = inv.Meta().String()
			return true, ""
		case 7:
			cnt := 0
			for range inv.Meta().Iter() {
				cnt++
			}
			_, err := inv.Meta().GetInt64("a")
			return cnt == len(m.Keys) && (err == nil) == (len(m.Keys) > 0 && hasKey(m.Keys, "a")), ""
		case 8:
			_, _, _, _ = inv.Issuer(), inv.Subject(), inv.Audience(), inv.Command()
			_, _, _, _ = inv.Proof(), inv.Nonce(), inv.Expiration(), inv.InvokedAt()
			return inv.IsValidAt(time.Unix(1700000000, 0)), ""
		case 9:
			d := ld.dlgs[0]
			nd, err := a.Clone().ToIPLD()
			if err != nil {
				return false, ""
			}
			okm, _ := d.Policy().Match(nd)
			_ = d.Meta().String()
			_, _, _ = d.Issuer(), d.Audience(), d.Subject()
			return okm && d.IsValidAt(time.Unix(1700000000, 0)), ""
		}
		// the same delegations serve a second invocation
		inv2 := verifInvocation(invIss, sub, did.Undef, command.Top(), a.Clone(), ch.cids, nil)
		return inv2.ExecutionAllowed(ld) == nil, ""
	}
	ok1, t1 := run()
	vReach("operation-ran")
	vAssert(vFrozenWrites() == 0, "a read-only operation wrote to memory reachable from the shared tokens")
	ok2, t2 := run()
	vAssert(ok1 == ok2, "running a read-only operation a second time gives a different outcome")
	vAssert(vEqStr(t1, t2), "printing the arguments a second time gives a different text")
}

func hasKey(keys []string, k string) bool {
	for _, x := range keys {
		if x == k {
			return true
		}
	}
	return false
}

// VerifC20Slices: a delegation whose policy uses a selector with open or
// negative slice bounds is not modified by evaluating it - against lists of
// different lengths, twice, through ExecutionAllowed and Policy().Match.
func VerifC20Slices() {
	vNow(1700000000, 0)
	invIss, sub, links := verifConformingLinks(1)
	sel := []string{".l[1:]", ".l[-2:]", ".l[:-1]", ".l[0:2]"}[vChoose("slice", 4)]
	p, err := policy.Construct(policy.All(sel, policy.GreaterThanOrEqual(".", basicnode.NewInt(c20Int("c")))))
	if err != nil {
		vSkip("unreachable: constructor failed")
	}
	links[0].pol = p
	mk := func(tag string) *args.Args {
		ln := vChoose(tag+"_len", 4)
		nd, err := qp.BuildList(basicnode.Prototype.Any, int64(ln), func(la datamodel.ListAssembler) {
			for i := 0; i < ln; i++ {
				qp.ListEntry(la, qp.Int(c20Int(tag+string(rune('0'+i)))))
			}
		})
		if err != nil {
			vSkip("unreachable: list build failed")
		}
		a := args.New()
		if err := a.Add("l", nd); err != nil {
			vSkip("unreachable: Add failed")
		}
		return a
	}
	a1, a2 := mk("first"), mk("second")
	ch := &verifChain{links: links, cids: verifCids(1)}
	ld := ch.loader()
	inv1 := verifInvocation(invIss, sub, did.Undef, command.Top(), a1, ch.cids, nil)
	inv2 := verifInvocation(invIss, sub, did.Undef, command.Top(), a2, ch.cids, nil)
	vFreeze(inv1, inv2, ld.dlgs[0])
	alone := inv2.ExecutionAllowed(ld) == nil // what the second invocation gets when checked first
	_ = inv1.ExecutionAllowed(ld)
	after := inv2.ExecutionAllowed(ld) == nil
	n2, _ := a2.Clone().ToIPLD()
	m1, _ := ld.dlgs[0].Policy().Match(n2)
	vReach("evaluated")
	vAssert(vFrozenWrites() == 0, "evaluating a policy wrote to memory reachable from the shared delegation")
	vAssert(alone == after, "the verdict for an invocation depends on which invocation was checked before it against the same delegation")
	vAssert(m1 == after, "Policy().Match on the shared delegation disagrees with ExecutionAllowed after earlier evaluations")
}
