//go:build verif

package invocation

import (
	"github.com/ipld/go-ipld-prime/datamodel"
	"github.com/ipld/go-ipld-prime/fluent/qp"
	"github.com/ipld/go-ipld-prime/node/basicnode"

	"github.com/ucan-wg/go-ucan/pkg/args"
)

// VerifC09InvDecodeHuge: a payload whose arguments carry an integer beyond
// int64 (DAG-CBOR's unsigned range) is decoded or rejected, never a panic.
func VerifC09InvDecodeHuge() {
	var m tokenPayloadModel
	m.Iss, m.Sub, m.Cmd = c10DidA, c10DidB, "/a"
	m.Nonce = make([]byte, 12)
	u := vU64("u")
	leaf := basicnode.NewUint(u)
	m.Args = args.New()
	m.Args.Keys = []string{"k"}
	if vChoose("nested", 2) == 1 {
		nd, err := qp.BuildMap(basicnode.Prototype.Any, 1, func(ma datamodel.MapAssembler) { qp.MapEntry(ma, "x", qp.Node(leaf)) })
		if err != nil {
			vSkip("unreachable: build failed")
		}
		m.Args.Values["k"] = nd
	} else {
		m.Args.Values["k"] = leaf
	}
	tkn, err := tokenFromModel(m)
	if err != nil {
		vReach("rejected")
		return
	}
	vReach("accepted")
	vAssert(u <= uint64(c10Max53), "decoded invocation has an argument integer beyond 2^53-1")
	_ = tkn
}
