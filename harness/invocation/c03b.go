//go:build verif

package invocation

import (
	"github.com/ipld/go-ipld-prime/datamodel"
	"github.com/ipld/go-ipld-prime/fluent/qp"
	"github.com/ipld/go-ipld-prime/node/basicnode"

	"github.com/ucan-wg/go-ucan/pkg/args"
	"github.com/ucan-wg/go-ucan/pkg/command"
	"github.com/ucan-wg/go-ucan/pkg/policy"
)

// c03Kind: one statement of a kind other than a bare integer comparison,
// over arguments {a: int, l: [ints], s: 2-byte text}, with its classical truth.
//   kinds: 0 float twin of an int constant (never true on an int argument)
//          1 not(.a > c)   2 and(.a > c, .a < d)   3 or(.a > c, .a < d)
//          4 all(.l, . > c)   5 any(.l, . > c)   6 like(.s, "a*")
func c03Kind(tag string, a int64, l []int64, s string) (policy.Constructor, bool) {
	c, d := verifInt53(tag+"_c"), verifInt53(tag+"_d")
	gt := func(sel string, v int64) policy.Constructor { return policy.GreaterThan(sel, basicnode.NewInt(v)) }
	lt := func(sel string, v int64) policy.Constructor { return policy.LessThan(sel, basicnode.NewInt(v)) }
	switch vChoose(tag+"_kind", 7) {
	case 0:
		// the same number as a float: prints like the integer 100 that every link
		// carries in this case (c03Twin), is another kind
		c03Twin = true
		op := vChoose(tag+"_op", 3)
		f := basicnode.NewFloat(100)
		switch op {
		case 0:
			return policy.Equal(".a", f), false
		case 1:
			return policy.LessThanOrEqual(".a", f), false
		}
		return policy.GreaterThanOrEqual(".a", f), false
	case 1:
		return policy.Not(gt(".a", c)), vNot(a > c)
	case 2:
		return policy.And(gt(".a", c), lt(".a", d)), vAnd(a > c, a < d)
	case 3:
		return policy.Or(gt(".a", c), lt(".a", d)), vOr(a > c, a < d)
	case 4:
		h := true
		for _, x := range l {
			h = vAnd(h, x > c)
		}
		return policy.All(".l", gt(".", c)), h
	case 5:
		h := false
		for _, x := range l {
			h = vOr(h, x > c)
		}
		return policy.Any(".l", gt(".", c)), h
	}
	return policy.Like(".s", "a*"), s[0] == 'a'
}

var c03Twin bool

// VerifC03Kinds: statements of every kind, placed on any link of the chain,
// bind the arguments: allowed => each of them is classically true. A float
// constant never matches an integer argument, however it prints.
func VerifC03Kinds() {
	vClockSec()
	n := 1 + vChoose("n", vParam("N"))
	a := verifInt53("a")
	var l []int64
	for i := 0; i < vChoose("l_len", 3); i++ {
		l = append(l, verifInt53("l"+string(rune('0'+i))))
	}
	s := vString("s", 2)
	for i := 0; i < len(s); i++ {
		vAssume(s[i] < 0x80)
	}
	invIss, sub, links := verifConformingLinks(n)
	holds := true
	c03Twin = false
	T := 1 + vChoose("nstmts", vParam("T"))
	perLink := make([][]policy.Constructor, n)
	for i := 0; i < T; i++ {
		k := vChoose("link"+string(rune('0'+i)), n)
		ctor, h := c03Kind("s"+string(rune('0'+i)), a, l, s)
		perLink[k] = append(perLink[k], ctor)
		holds = vAnd(holds, h)
	}
	// every link also carries a plain integer statement with the same selector
	for i := range links {
		cp := int64(100)
		if !c03Twin {
			cp = verifInt53("cap" + string(rune('0'+i)))
		}
		holds = vAnd(holds, a <= cp)
		perLink[i] = append(perLink[i], policy.LessThanOrEqual(".a", basicnode.NewInt(cp)))
		pol, err := policy.Construct(perLink[i]...)
		if err != nil {
			vSkip("unreachable: constructor failed")
		}
		links[i].pol = pol
	}
	ar := args.New()
	if err := ar.Add("a", a); err != nil {
		vSkip("unreachable")
	}
	ln, lerr := qp.BuildList(basicnode.Prototype.Any, int64(len(l)), func(la datamodel.ListAssembler) {
		for _, x := range l {
			qp.ListEntry(la, qp.Int(x))
		}
	})
	if lerr != nil {
		vSkip("unreachable: list build failed")
	}
	if err := ar.Add("l", ln); err != nil {
		vSkip("unreachable")
	}
	if err := ar.Add("s", s); err != nil {
		vSkip("unreachable")
	}
	ch := &verifChain{links: links, cids: verifCids(n)}
	inv := verifInvocation(invIss, sub, sub, command.Top(), ar, ch.cids, nil)
	err := inv.ExecutionAllowed(ch.loader())
	if err == nil {
		vReach("allowed")
		vAssert(holds, "allowed although the arguments violate a statement (not / and / or / all / any / like / float constant) of a delegation in the chain")
	} else {
		vReach("denied")
	}
}
