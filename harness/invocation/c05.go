//go:build verif

package invocation

import (
	"time"

	"github.com/ucan-wg/go-ucan/did"
	"github.com/ucan-wg/go-ucan/pkg/command"
	"github.com/ucan-wg/go-ucan/pkg/policy"
)

// verifIrrelevant sets the fields that must not influence authorisation to
// arbitrary values: audience, nonce, cause, invokedAt, one metadata entry.
func verifIrrelevant(inv *Token, base int64) {
	if vBool("aud_defined") {
		inv.audience = did.VerifDID(vU8("aud"))
	}
	inv.nonce = vBytes("nonce", 12)
	if vBool("cause_present") {
		c := verifCid(200)
		inv.cause = &c
	}
	if vBool("iat_present") {
		d := vI64("iat_delta")
		vAssume(d <= 1<<30)
		vAssume(d >= -(1 << 30))
		t := time.Unix(base+d, 0)
		inv.invokedAt = &t
	}
	if vBool("meta_present") {
		if err := inv.meta.Add("note", int64(vI32("meta_value"))); err != nil {
			vSkip("unreachable: meta.Add failed")
		}
	}
}

// VerifC05Principals: any principal assignment satisfying the rules
// (including self-delegation and repeated principals) is accepted, whatever
// the irrelevant fields are.
func VerifC05Principals() {
	base := vClockSec()
	n := 1 + vChoose("n", vParam("N"))
	invIss := did.VerifDID(vU8("inv_iss"))
	invSub := did.VerifDID(vU8("inv_sub"))
	ch := &verifChain{}
	for i := 0; i < n; i++ {
		l := verifLink{iss: did.VerifDID(vU8("d_iss")), aud: did.VerifDID(vU8("d_aud")), sub: did.VerifDID(vU8("d_sub")), cmd: command.Top(), loadable: true}
		ch.links = append(ch.links, l)
		ch.cids = append(ch.cids, verifCid(i))
	}
	vAssume(verifPrincipalsSpec(invIss, invSub, ch.links))
	inv := verifInvocation(invIss, invSub, did.Undef, command.Top(), nil, ch.cids, nil)
	verifIrrelevant(inv, base)
	if vChoose("checked_before", 2) == 1 {
		// the same token was checked earlier, when a delegation was not yet available
		none := ch.loader()
		none.ok[vChoose("missing_then", n)] = false
		_ = inv.ExecutionAllowed(none)
	}
	err := inv.ExecutionAllowed(ch.loader())
	vReach("conforming")
	vAssert(err == nil, "a chain conforming to the principal rules was denied")
}

// VerifC05Commands: any attenuating command sequence is accepted.
func VerifC05Commands() {
	base := vClockSec()
	N, L := vParam("N"), vParam("L")
	n := 1 + vChoose("n", N)
	invIss, sub, links := verifConformingLinks(n)
	texts := make([]string, n+1)
	segs := make([][]string, n+1)
	for i := range texts {
		l := 1 + vChoose("cmdlen", L)
		texts[i] = vString("cmd", l)
		vAssume(verifValidCmdText(texts[i]))
		segs[i] = verifSegs(texts[i])
	}
	ok := true
	for i := 0; i < n; i++ {
		links[i].cmd = command.Command(texts[i+1])
		ok = vAnd(ok, verifSegPrefix(segs[i+1], segs[i]))
	}
	vAssume(ok)
	ch := &verifChain{links: links, cids: verifCids(n)}
	inv := verifInvocation(invIss, sub, did.Undef, command.Command(texts[0]), nil, ch.cids, nil)
	verifIrrelevant(inv, base)
	err := inv.ExecutionAllowed(ch.loader())
	vReach("conforming")
	vAssert(err == nil, "a chain that only narrows the command was denied")
}

// VerifC05Policy: arguments satisfying every statement of every link are accepted.
func VerifC05Policy() {
	st := verifC03Inputs()
	vAssume(st.holds(st.hasA, st.hasB, st.a, st.b))
	inv, ch := st.run(st.perLink)
	err := inv.ExecutionAllowed(ch.loader())
	vReach("conforming")
	vAssert(err == nil, "arguments satisfying every policy statement were denied")
}

// VerifC05All: everything at once on a small bound (interactions).
func VerifC05All() {
	base := vClockSec()
	n := 1 + vChoose("n", vParam("N"))
	invIss := did.VerifDID(vU8("inv_iss"))
	invSub := did.VerifDID(vU8("inv_sub"))
	ch := &verifChain{}
	L := vParam("L")
	texts := make([]string, n+1)
	segs := make([][]string, n+1)
	for i := range texts {
		l := 1 + vChoose("cmdlen", L)
		texts[i] = vString("cmd", l)
		vAssume(verifValidCmdText(texts[i]))
		segs[i] = verifSegs(texts[i])
	}
	cmdOK := true
	timeOK := true
	for i := 0; i < n; i++ {
		l := verifLink{iss: did.VerifDID(vU8("d_iss")), aud: did.VerifDID(vU8("d_aud")), sub: did.VerifDID(vU8("d_sub")), cmd: command.Command(texts[i+1]), loadable: true}
		hasNbf, dn, nbfT := verifDeltaTime("nbf", base)
		hasExp, de, expT := verifDeltaTime("exp", base)
		l.nbf, l.exp = nbfT, expT
		timeOK = vAnd(timeOK, vAnd(vOr(!hasNbf, dn < 0), vOr(!hasExp, de > 0)))
		cmdOK = vAnd(cmdOK, verifSegPrefix(segs[i+1], segs[i]))
		ch.links = append(ch.links, l)
		ch.cids = append(ch.cids, verifCid(i))
	}
	hasExp, de, expT := verifDeltaTime("inv_exp", base)
	timeOK = vAnd(timeOK, vOr(!hasExp, de > 0))
	vAssume(verifPrincipalsSpec(invIss, invSub, ch.links))
	vAssume(cmdOK)
	vAssume(timeOK)
	// one statement on the root link, satisfied by the arguments
	s := verifStmt{link: n - 1, op: vChoose("op", 5), sel: vChoose("sel", 3), c: verifInt53("c")}
	hasA := vBool("has_a")
	var a int64
	if hasA {
		a = verifInt53("a")
	}
	b := verifInt53("b")
	vAssume(verifStmtHolds(s, hasA, true, a, b))
	pol, err := policy.Construct(verifStmtCtor(s))
	if err != nil {
		vSkip("unreachable")
	}
	ch.links[n-1].pol = pol
	inv := verifInvocation(invIss, invSub, did.Undef, command.Command(texts[0]), verifArgs(hasA, true, a, b, 0), ch.cids, expT)
	if vParam("IRR") == 1 {
		verifIrrelevant(inv, base)
	} else if vBool("aud_defined") {
		inv.audience = did.VerifDID(vU8("aud"))
	}
	e := inv.ExecutionAllowed(ch.loader())
	vReach("conforming")
	vAssert(e == nil, "a chain satisfying every delegation rule was denied")
}
