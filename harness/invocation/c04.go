//go:build verif

package invocation

import (
	"time"

	"github.com/ucan-wg/go-ucan/did"
	"github.com/ucan-wg/go-ucan/pkg/command"
	"github.com/ucan-wg/go-ucan/token/delegation"
	"github.com/ucan-wg/go-ucan/token/internal/parse"
)

const verifMaxInt53 = int64(1)<<53 - 1

// verifOptTime: an optional bound as a decoder produces it: absent, or any
// whole second in the int53 range (through parse.OptionalTimestamp).
func verifOptTime(tag string) (present bool, sec int64, t *time.Time) {
	if !vBool(tag + "_present") {
		return false, 0, nil
	}
	sec = vI64(tag + "_sec")
	vAssume(sec <= verifMaxInt53)
	vAssume(sec >= -verifMaxInt53)
	t, err := parse.OptionalTimestamp(&sec)
	vAssert(err == nil, "a timestamp within +/-(2^53-1) was rejected")
	return true, sec, t
}

// VerifC04Single: validity window of one token, exact at the boundaries:
// strictly inside => valid, strictly outside => invalid, for both token types.
func VerifC04Single() {
	hasNbf, nbf, nbfT := verifOptTime("nbf")
	hasExp, exp, expT := verifOptTime("exp")
	s := vI64("probe_sec")
	ns := vI64("probe_nsec")
	vAssume(s <= verifMaxInt53)
	vAssume(s >= -verifMaxInt53)
	vAssume(ns >= 0)
	vAssume(ns < 1000000000)
	probe := time.Unix(s, ns)

	afterNbf := vOr(s > nbf, vAnd(s == nbf, ns > 0))  // probe strictly after nbf
	beforeNbf := s < nbf                              // probe strictly before nbf
	beforeExp := s < exp                              // probe strictly before exp
	afterExp := vOr(s > exp, vAnd(s == exp, ns > 0))  // probe strictly after exp
	inside := vAnd(vOr(!hasNbf, afterNbf), vOr(!hasExp, beforeExp))
	outside := vOr(vAnd(hasNbf, beforeNbf), vAnd(hasExp, afterExp))

	a := did.VerifDID(0)
	dlg := delegation.VerifToken(a, a, a, command.Top(), nil, nbfT, expT)
	vd := dlg.IsValidAt(probe)
	if vd {
		vReach("dlg-valid")
	} else {
		vReach("dlg-invalid")
	}
	vAssert(vImplies(inside, vd), "delegation invalid at an instant strictly inside its window")
	vAssert(vImplies(outside, !vd), "delegation valid at an instant strictly outside its window")

	// invocation tokens carry an expiration only
	inv := verifInvocation(a, a, did.Undef, command.Top(), nil, nil, expT)
	vi := inv.IsValidAt(probe)
	if vi {
		vReach("inv-valid")
	} else {
		vReach("inv-invalid")
	}
	vAssert(vImplies(vOr(!hasExp, beforeExp), vi), "invocation invalid at an instant before its expiration")
	vAssert(vImplies(vAnd(hasExp, afterExp), !vi), "invocation valid at an instant after its expiration")
}

// verifDeltaTime: an optional bound at clock+delta, |delta| >= 60 s.
func verifDeltaTime(tag string, base int64) (present bool, delta int64, t *time.Time) {
	if !vBool(tag + "_present") {
		return false, 0, nil
	}
	delta = vI64(tag + "_delta")
	vAssume(vOr(delta >= 60, delta <= -60))
	vAssume(delta <= 1<<30)
	vAssume(delta >= -(1 << 30))
	sec := base + delta
	t, err := parse.OptionalTimestamp(&sec)
	if err != nil {
		vSkip("unreachable: clock+delta is within int53")
	}
	return true, delta, t
}

// VerifC04Chain: allowed => the invocation and every delegation are valid now.
func VerifC04Chain() {
	base := vClockSec()
	n := 1 + vChoose("n", vParam("N"))
	invIss, sub, links := verifConformingLinks(n)
	allValid := true
	for i := range links {
		hasNbf, dn, nbfT := verifDeltaTime("nbf", base)
		hasExp, de, expT := verifDeltaTime("exp", base)
		links[i].nbf, links[i].exp = nbfT, expT
		allValid = vAnd(allValid, vAnd(vOr(!hasNbf, dn < 0), vOr(!hasExp, de > 0)))
	}
	hasExp, de, expT := verifDeltaTime("inv_exp", base)
	allValid = vAnd(allValid, vOr(!hasExp, de > 0))
	ch := &verifChain{links: links, cids: verifCids(n)}
	inv := verifInvocation(invIss, sub, did.Undef, command.Top(), nil, ch.cids, expT)
	err := inv.ExecutionAllowed(ch.loader())
	if err == nil {
		vReach("allowed")
		vAssert(allValid, "allowed although the invocation or a delegation of the chain is expired or not yet active")
	} else {
		vReach("denied")
		// nothing else can deny this chain: the converse holds too (part of C05)
		vAssert(!allValid, "a time-valid conforming chain was denied")
	}
}
