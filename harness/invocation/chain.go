//go:build verif

package invocation

import (
	"time"

	"github.com/ipfs/go-cid"

	"github.com/ucan-wg/go-ucan/did"
	"github.com/ucan-wg/go-ucan/pkg/args"
	"github.com/ucan-wg/go-ucan/pkg/command"
	"github.com/ucan-wg/go-ucan/pkg/meta"
	"github.com/ucan-wg/go-ucan/pkg/policy"
	"github.com/ucan-wg/go-ucan/token/delegation"
)

// verifLoader resolves proof CIDs to delegations; ok[i] clear = not found.
type verifLoader struct {
	cids []cid.Cid
	dlgs []*delegation.Token
	ok   []bool
}

func (l verifLoader) GetDelegation(c cid.Cid) (*delegation.Token, error) {
	for i := range l.cids {
		if l.cids[i] == c {
			if !l.ok[i] {
				return nil, delegation.ErrDelegationNotFound
			}
			return l.dlgs[i], nil
		}
	}
	return nil, delegation.ErrDelegationNotFound
}

func verifCid(i int) cid.Cid {
	mh := make([]byte, 34)
	mh[0] = 0x12
	mh[1] = 0x20
	mh[2] = byte(i)
	return cid.NewCidV1(0x71, mh)
}

type verifLink struct {
	iss, aud, sub did.DID
	cmd           command.Command
	pol           policy.Policy
	nbf, exp      *time.Time
	loadable      bool
}

type verifChain struct {
	links []verifLink
	cids  []cid.Cid
}

func (c *verifChain) loader() verifLoader {
	l := verifLoader{cids: c.cids}
	for _, k := range c.links {
		l.dlgs = append(l.dlgs, delegation.VerifToken(k.iss, k.aud, k.sub, k.cmd, k.pol, k.nbf, k.exp))
		l.ok = append(l.ok, k.loadable)
	}
	return l
}

func verifInvocation(iss, sub, aud did.DID, cmd command.Command, a *args.Args, prf []cid.Cid, exp *time.Time) *Token {
	if a == nil {
		a = args.New()
	}
	return &Token{issuer: iss, subject: sub, audience: aud, command: cmd, arguments: a, proof: prf,
		meta: meta.NewMeta(), nonce: make([]byte, 12), expiration: exp}
}

// verifPrincipalsSpec: the delegation rules on principals (C01), as a term.
func verifPrincipalsSpec(invIss, invSub did.DID, links []verifLink) bool {
	n := len(links)
	spec := n >= 1
	for i := 0; i < n; i++ {
		spec = vAnd(spec, links[i].loadable)
		spec = vAnd(spec, links[i].sub == invSub)
		if i == 0 {
			spec = vAnd(spec, links[i].aud == invIss)
		} else {
			spec = vAnd(spec, links[i].aud == links[i-1].iss)
		}
	}
	if n >= 1 {
		spec = vAnd(spec, links[n-1].iss == links[n-1].sub)
	}
	return spec
}

// verifConformingLinks returns n links (0 = leaf ... n-1 = root) whose
// principals satisfy the delegation rules for subject did(0) and invoker did(1).
func verifConformingLinks(n int) (invIss, sub did.DID, links []verifLink) {
	sub = did.VerifDID(0)
	p := func(i int) did.DID {
		if i == n {
			return sub
		}
		return did.VerifDID(byte(i + 1))
	}
	for i := 0; i < n; i++ {
		links = append(links, verifLink{iss: p(i + 1), aud: p(i), sub: sub, cmd: command.Top(), loadable: true})
	}
	return p(0), sub, links
}

// verifSegs: reference segmentation of a command text (forks on '/' positions only).
func verifSegs(s string) []string {
	if len(s) == 1 {
		return nil
	}
	var segs []string
	start := 1
	for i := 1; i < len(s); i++ {
		if s[i] == '/' {
			segs = append(segs, s[start:i])
			start = i + 1
		}
	}
	return append(segs, s[start:])
}

// verifSegPrefix: a is a prefix of b as segment lists (contents compared as terms).
func verifSegPrefix(a, b []string) bool {
	if len(a) > len(b) {
		return false
	}
	r := true
	for i := range a {
		r = vAnd(r, vEqStr(a[i], b[i]))
	}
	return r
}

// verifValidCmdText: the command grammar as a term (ASCII bound).
func verifValidCmdText(s string) bool {
	ok := s[0] == '/'
	if len(s) > 1 {
		ok = vAnd(ok, s[len(s)-1] != '/')
	}
	for i := 0; i < len(s); i++ {
		ok = vAnd(ok, s[i] < 0x80)
		ok = vAnd(ok, vNot(vAnd(s[i] >= 'A', s[i] <= 'Z')))
	}
	return ok
}

func verifCids(n int) []cid.Cid {
	var out []cid.Cid
	for i := 0; i < n; i++ {
		out = append(out, verifCid(i))
	}
	return out
}
