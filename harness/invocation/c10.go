//go:build verif

package invocation

import (
	"time"

	"github.com/ipld/go-ipld-prime"
	"github.com/ipld/go-ipld-prime/datamodel"
	"github.com/ipld/go-ipld-prime/fluent/qp"
	"github.com/ipld/go-ipld-prime/node/basicnode"
	"github.com/ipld/go-ipld-prime/schema"

	"github.com/ucan-wg/go-ucan/did"
	"github.com/ucan-wg/go-ucan/pkg/command"
	"github.com/ucan-wg/go-ucan/pkg/args"
	"github.com/ucan-wg/go-ucan/pkg/meta"
	"github.com/ucan-wg/go-ucan/token/internal/envelope"
)

const c10Max53 = int64(1)<<53 - 1

const c10DidA = "did:key:z6MkvJPmEZZYbgiw1ouT1oouTsTFBHJSts9ophVsNgcRmYxU"
const c10DidB = "did:key:z6Mkq5YmbJcTrPExNDi26imrTCpKhepjBFBSHqrBDN2ArPkv"

func c10MaybeDID(tag string) did.DID {
	if vChoose(tag+"_defined", 2) == 0 {
		return did.Undef
	}
	return did.VerifDID(byte(len(tag))) // which principal it is does not matter here
}

// VerifC10InvCtor: an invocation that comes out of New has a defined issuer
// and subject and a nonce of >= 12 bytes.
func VerifC10InvCtor() {
	vNow(1700000000, 0) // the engine's clock; natively the real clock is used
	iss, sub := c10MaybeDID("iss"), c10MaybeDID("sub")
	var opts []Option
	switch k := vChoose("nonce_opt", 16); {
	case k == 14: // no nonce option
	case k == 15:
		opts = append(opts, WithEmptyNonce())
	default:
		opts = append(opts, WithNonce(vBytes("nonce", k)))
	}
	if vChoose("with_aud", 2) == 1 {
		opts = append(opts, WithAudience(c10MaybeDID("aud")))
	}
	if vChoose("with_exp", 2) == 1 {
		opts = append(opts, WithExpiration(time.Now().Add(time.Hour)))
	}
	if vChoose("without_iat", 2) == 1 {
		opts = append(opts, WithoutInvokedAt())
	}
	if vChoose("with_arg", 2) == 1 {
		opts = append(opts, WithArgument("k", vI64("arg")))
	}
	tkn, err := New(iss, sub, command.Top(), nil, opts...)
	if err != nil {
		vReach("refused")
		return
	}
	vReach("constructed")
	vAssert(tkn.Issuer().Defined(), "constructor returned an invocation without a defined issuer")
	vAssert(tkn.Subject().Defined(), "constructor returned an invocation without a defined subject")
	vAssert(len(tkn.Nonce()) >= 12, "constructor returned an invocation with a nonce shorter than 12 bytes")
}

// c10IntTree: an IPLD value with one symbolic integer leaf at a chosen depth.
func c10IntTree(tag string) (ipld.Node, int64) {
	v := vI64(tag)
	var nd ipld.Node
	var err error
	switch c10Ch(2, tag+"_shape", 4, 0) {
	case 0:
		nd = basicnode.NewInt(v)
	case 1:
		nd, err = qp.BuildList(basicnode.Prototype.Any, 2, func(la datamodel.ListAssembler) {
			qp.ListEntry(la, qp.String("x"))
			qp.ListEntry(la, qp.Int(v))
		})
	case 2:
		nd, err = qp.BuildMap(basicnode.Prototype.Any, 1, func(ma datamodel.MapAssembler) {
			qp.MapEntry(ma, "k", qp.Int(v))
		})
	default:
		nd, err = qp.BuildMap(basicnode.Prototype.Any, 1, func(ma datamodel.MapAssembler) {
			qp.MapEntry(ma, "k", qp.List(1, func(la datamodel.ListAssembler) { qp.ListEntry(la, qp.Int(v)) }))
		})
	}
	if err != nil {
		vSkip("unreachable: build failed")
	}
	return nd, v
}

// c10Focus: the decode harnesses vary up to GROUPS groups of fields at a time
// (bit 0 principals, 1 command, 2 time bounds and integers, 3 nonce and
// metadata) and keep the others at a valid default; every combination of
// values inside the chosen groups is explored.
var c10Focus int

func c10PickFocus() {
	c10Focus = 1 + vChoose("focus", 15)
	bits := 0
	for b := 0; b < 4; b++ {
		if c10Focus&(1<<b) != 0 {
			bits++
		}
	}
	if bits > vParam("GROUPS") {
		vSkip("more groups than the bound")
	}
}

func c10Ch(group int, tag string, n int, dflt int) int {
	if c10Focus&(1<<group) != 0 {
		return vChoose(tag, n)
	}
	return dflt
}

func c10DidText(tag string) (string, bool) {
	switch c10Ch(0, tag, 4, 0) {
	case 0:
		return c10DidA, true
	case 1:
		return c10DidB, true
	case 2:
		return "", false
	}
	return "did:key:zQ", false // base58 of a junk multicodec
}

// c10ValidCmd: the command grammar as a term (ASCII bound).
func c10ValidCmd(s string) bool {
	if len(s) == 0 {
		return false
	}
	ok := s[0] == '/'
	if len(s) > 1 {
		ok = vAnd(ok, s[len(s)-1] != '/')
	}
	for i := 0; i < len(s); i++ {
		ok = vAnd(ok, vNot(vAnd(s[i] >= 'A', s[i] <= 'Z')))
	}
	return ok
}

func c10Cmd() string {
	if c10Focus&2 == 0 {
		return "/a"
	}
	s := vString("cmd", vChoose("cmd_len", vParam("L")+1))
	for i := 0; i < len(s); i++ {
		vAssume(s[i] < 0x80)
	}
	return s
}

func c10OptTime(tag string) (*int64, bool, int64) {
	if c10Ch(2, tag+"_present", 2, 0) == 0 {
		return nil, false, 0
	}
	v := vI64(tag)
	return &v, true, v
}

// VerifC10InvDecode: whatever payload model the schema layer hands over,
// tokenFromModel returns only well-formed invocations.
func VerifC10InvDecode() {
	c10PickFocus()
	var m tokenPayloadModel
	var issOK, subOK bool
	m.Iss, issOK = c10DidText("iss")
	m.Sub, subOK = c10DidText("sub")
	audOK := true
	if c10Ch(0, "aud_present", 2, 0) == 1 {
		s, ok := c10DidText("aud")
		m.Aud, audOK = &s, ok
	}
	m.Cmd = c10Cmd()
	leaf, leafV := c10IntTree("arg")
	hasArg := c10Ch(2, "has_arg", 2, 0) == 1
	m.Args = args.New()
	if hasArg { // as the schema layer fills it: no validation on the way in
		m.Args.Keys = append(m.Args.Keys, "k")
		m.Args.Values["k"] = leaf
	}
	m.Nonce = vBytes("nonce", c10Ch(3, "nonce_len", 14, 12))
	if c10Ch(3, "meta_present", 2, 1) == 1 {
		m.Meta = meta.NewMeta()
	}
	var hasIat, hasExp bool
	var iat, exp int64
	m.Iat, hasIat, iat = c10OptTime("iat")
	m.Exp, hasExp, exp = c10OptTime("exp")
	tkn, err := tokenFromModel(m)
	if err != nil {
		vReach("rejected")
		return
	}
	vReach("accepted")
	vAssert(issOK && audOK && subOK, "an invocation with an unparsable principal was accepted")
	vAssert(tkn.Issuer().Defined() && tkn.Subject().Defined(), "decoded invocation lacks a defined issuer or subject")
	vAssert(len(tkn.Nonce()) >= 12, "decoded invocation has a nonce shorter than 12 bytes")
	vAssert(c10ValidCmd(m.Cmd), "decoded invocation has a syntactically invalid command")
	vAssert(vEqStr(tkn.Command().String(), m.Cmd), "decoded invocation's command differs from the payload's")
	if hasIat {
		vAssert(vAnd(iat <= c10Max53, iat >= -c10Max53), "decoded invocation has an issue time outside +/-(2^53-1)")
		vAssert(tkn.InvokedAt() != nil && tkn.InvokedAt().Unix() == iat, "decoded issue time differs from the payload's")
	} else {
		vAssert(tkn.InvokedAt() == nil, "decoded invocation has an issue time that the payload lacks")
	}
	if hasExp {
		vAssert(vAnd(exp <= c10Max53, exp >= -c10Max53), "decoded invocation has an expiration outside +/-(2^53-1)")
		vAssert(tkn.Expiration() != nil && tkn.Expiration().Unix() == exp, "decoded expiration differs from the payload's")
	} else {
		vAssert(tkn.Expiration() == nil, "decoded invocation has an expiration that the payload lacks")
	}
	if hasArg {
		vAssert(vAnd(leafV <= c10Max53, leafV >= -c10Max53), "decoded invocation has an argument integer outside +/-(2^53-1)")
	}
}

// ---- envelope shapes ----

var c10ReachedBind bool

func c10PrototypeStub(e *tokenPayloadModel) schema.TypedPrototype {
	c10ReachedBind = true
	panic("c10: payload handed to the schema layer")
}

// c10Envelope builds [sig, {k1: v1, ...}] with 0..3 entries; returns whether
// the signed part is exactly one header (bytes under "h") plus one payload
// under tag wantTag, and whether it is exactly one header plus one payload
// under any "ucan/" tag.
func c10Envelope(wantTag, otherTag string) (node ipld.Node, exact bool, shaped bool, payloadIsMap bool) {
	n := vChoose("entries", 4)
	// a near-miss tag: the wanted tag with one byte replaced by a symbolic one
	pos := 0
	if vParam("ALLPOS") == 1 {
		pos = vChoose("miss_pos", len(wantTag))
	} else {
		pos = []int{0, 4, 5, len(wantTag) - 1}[vChoose("miss_pos", 4)]
	}
	missB := vU8("miss_byte")
	vAssume(missB < 0x80)
	miss := wantTag[:pos] + string([]byte{missB}) + wantTag[pos+1:]
	keys := []string{"h", wantTag, otherTag, miss, "x", "ucan/"}
	type ent struct {
		key  string
		kind int // 0 bytes, 1 map, 2 int
	}
	var ents []ent
	used := map[int]bool{}
	for i := 0; i < n; i++ {
		k := vChoose("key"+string(rune('0'+i)), len(keys))
		if used[k] {
			vSkip("duplicate key")
		}
		used[k] = true
		ents = append(ents, ent{keys[k], vChoose("val"+string(rune('0'+i)), 3)})
	}
	if used[1] && used[3] {
		vAssume(missB != wantTag[pos]) // a map cannot hold the same key twice
	}
	sigPayload, err := qp.BuildMap(basicnode.Prototype.Any, int64(n), func(ma datamodel.MapAssembler) {
		for _, e := range ents {
			switch e.kind {
			case 0:
				qp.MapEntry(ma, e.key, qp.Bytes([]byte{0x34, 0xed, 0x01, 0x71}))
			case 1:
				qp.MapEntry(ma, e.key, qp.Map(1, func(ma datamodel.MapAssembler) { qp.MapEntry(ma, "iss", qp.String(c10DidA)) }))
			default:
				qp.MapEntry(ma, e.key, qp.Int(1))
			}
		}
	})
	if err != nil {
		vSkip("unreachable: build failed")
	}
	node, err = qp.BuildList(basicnode.Prototype.Any, 2, func(la datamodel.ListAssembler) {
		qp.ListEntry(la, qp.Bytes([]byte{1, 2, 3}))
		qp.ListEntry(la, qp.Node(sigPayload))
	})
	if err != nil {
		vSkip("unreachable: build failed")
	}
	hasH, hasWant, hasUcan := false, false, false
	for _, e := range ents {
		if e.key == "h" && e.kind == 0 {
			hasH = true
		}
		if vConcBool(vEqStr(e.key, wantTag)) {
			hasWant = true
			payloadIsMap = e.kind == 1
		}
		if len(e.key) >= 5 && vConcBool(vEqStr(e.key[:5], "ucan/")) {
			hasUcan = true
		}
	}
	return node, n == 2 && hasH && hasWant, n == 2 && hasH && hasUcan, payloadIsMap
}

// VerifC10InvEnvelope: the payload reaches the schema layer of the invocation
// decoder only if the signed part is exactly {h: bytes, <invocation tag>: payload}.
func VerifC10InvEnvelope() {
	VStub_tokenPayloadModel_Prototype = c10PrototypeStub
	node, exact, shaped, payloadIsMap := c10Envelope(Tag, "ucan/dlg@1.0.0-rc.1")
	c10ReachedBind = false
	info, err := envelope.Inspect(node)
	if err == nil {
		vReach("inspect-accepted")
		vAssert(shaped, "Inspect accepts a signed part that is not exactly one header plus one tagged payload")
		vAssert(len(info.Tag) >= 5 && info.Tag[:5] == "ucan/", "Inspect reports a tag without the ucan/ prefix")
	} else {
		vReach("inspect-rejected")
	}
	var tkn *Token
	var derr error
	vNoPanic(func() { tkn, derr = FromIPLD(node) })
	if c10ReachedBind {
		vReach("reached-schema")
		vAssert(exact, "the invocation decoder accepts an envelope whose signed part is not exactly one header plus one invocation payload")
	} else {
		vReach("stopped-before-schema")
		vAssert(tkn == nil && derr != nil, "the invocation decoder returned a token without decoding a payload")
		vAssert(!(exact && payloadIsMap), "the invocation decoder rejects a well-shaped invocation envelope before looking at the payload")
	}
}
