//go:build verif

package invocation

import (
	"time"

	"github.com/ipld/go-ipld-prime/datamodel"
	"github.com/ipld/go-ipld-prime/node/basicnode"
	"github.com/libp2p/go-libp2p/core/crypto"
	"github.com/libp2p/go-libp2p/core/crypto/pb"

	"github.com/ucan-wg/go-ucan/did"
	"github.com/ucan-wg/go-ucan/pkg/command"
	"github.com/ucan-wg/go-ucan/token/internal/envelope"
	"github.com/ipfs/go-cid"
)

// ---------------------------------------------------------------------------
// C07 — seal then unseal is lossless (model level).
//
// Sealing hands a payload model to envelope.ToIPLD (bindnode + DAG-CBOR +
// signature); unsealing gets a payload model back from it. That layer is
// replaced by the identity on models; what is decided is go-ucan's own pair
// toIPLD / tokenFromModel: every token a constructor accepts is turned into a
// model from which an equal token is rebuilt.
// ---------------------------------------------------------------------------

type c07Key struct{}

func (c07Key) Equals(o crypto.Key) bool                 { return true }
func (c07Key) Raw() ([]byte, error)                     { return nil, nil }
func (c07Key) Type() pb.KeyType                         { return pb.KeyType_Ed25519 }
func (c07Key) Verify(data, sig []byte) (bool, error)    { return true, nil }
func (c07Key) Sign(data []byte) ([]byte, error)         { return []byte{1}, nil }
func (c07Key) GetPublic() crypto.PubKey                 { return c07Key{} }

var c07Captured *tokenPayloadModel

func c07Install() {
	c07Captured = nil
	did.VStub_DID_PubKey = func(d did.DID) (crypto.PubKey, error) { return c07Key{}, nil }
	VCall_envelope_ToIPLD = func(privKey crypto.PrivKey, tkn envelope.Tokener) (datamodel.Node, error) {
		c07Captured = tkn.(*tokenPayloadModel)
		return nil, nil
	}
}

var c07Now int64

// c07Future: an instant at least a minute after the clock (symbolic under the
// engine, the real one natively), any second up to 2^62, whole or fractional.
func c07Future(tag string) time.Time {
	delta := vI64(tag + "_delta")
	vAssume(delta > 60)
	vAssume(delta < 1<<62-1<<41)
	// the engine's clock and the real one differ by less than 2^41 s: keep clear of
	// the 2^53 limit by that much so that both are on the same side of it
	vAssume(vOr(delta < 1<<53-1<<42, delta > 1<<53+1<<42))
	sec := c07Now + delta
	nsec := int64(0)
	if vChoose(tag+"_fraction", 2) == 1 {
		nsec = 500000000
	}
	return time.Unix(sec, nsec)
}

// c07Any: any instant whatever (past, year 1, far future), whole seconds.
func c07Any(tag string) time.Time {
	sec := vI64(tag + "_sec") // absolute: these options do not look at the clock
	vAssume(sec > -(1 << 62))
	vAssume(sec < 1<<62)
	return time.Unix(sec, 0)
}

func c07Cmd() command.Command {
	s := vString("cmd", 1+vChoose("cmd_len", vParam("L")))
	for i := 0; i < len(s); i++ {
		vAssume(s[i] < 0x80)
	}
	return command.Command(s)
}

func c07SameTime(a, b *time.Time) bool {
	if a == nil || b == nil {
		return a == nil && b == nil
	}
	return a.Unix() == b.Unix()
}

// VerifC07Inv: every invocation a constructor accepts survives toIPLD /
// tokenFromModel with every field intact (times at whole seconds).
func VerifC07Inv() {
	c07Install()
	c07Now = vClockSec()
	iss, sub := did.MustParse(c10DidA), did.MustParse(c10DidB)
	var opts []Option
	if vChoose("with_exp", 2) == 1 {
		opts = append(opts, WithExpiration(c07Any("exp")))
	}
	switch vChoose("iat", 3) {
	case 1:
		opts = append(opts, WithInvokedAt(c07Any("iat")))
	case 2:
		opts = append(opts, WithoutInvokedAt())
	}
	switch vChoose("nonce", 4) {
	case 1:
		opts = append(opts, WithNonce(vBytes("nonce", 12)))
	case 2:
		opts = append(opts, WithNonce(vBytes("nonce", 13)))
	case 3:
		opts = append(opts, WithEmptyNonce())
	}
	if vChoose("with_aud", 2) == 1 {
		opts = append(opts, WithAudience(iss))
	}
	switch vChoose("with_meta", 3) {
	case 1:
		opts = append(opts, WithMeta("k", c07Int("meta")))
	case 2: // an IPLD node is an accepted metadata value and is taken as it is
		opts = append(opts, WithMeta("k", basicnode.NewInt(vI64("meta_node"))))
	}
	if vChoose("with_arg", 2) == 1 {
		opts = append(opts, WithArgument("a", c07Int("arg")))
	}
	var prf []cid.Cid
	if vChoose("with_proof", 2) == 1 {
		prf = verifCids(2)
	}
	cmd := c07Cmd()
	tkn, err := New(iss, sub, cmd, prf, opts...)
	if err != nil {
		vReach("refused")
		return
	}
	vReach("constructed")
	_, err = tkn.toIPLD(c07Key{})
	vAssert(err == nil && c07Captured != nil, "an invocation accepted by the constructor cannot be sealed")
	if err != nil || c07Captured == nil {
		return
	}
	back, err := tokenFromModel(*c07Captured)
	vAssert(err == nil, "an invocation accepted by the constructor is rejected when unsealed")
	if err != nil {
		return
	}
	vReach("round-tripped")
	vAssert(back.Issuer() == tkn.Issuer() && back.Audience() == tkn.Audience() && back.Subject() == tkn.Subject(), "a principal changes across seal/unseal")
	vAssert(vEqStr(back.Command().String(), tkn.Command().String()), "the command changes across seal/unseal")
	vAssert(vEqBytes(back.Nonce(), tkn.Nonce()), "the nonce changes across seal/unseal")
	vAssert(c07SameTime(back.Expiration(), tkn.Expiration()), "the expiration changes across seal/unseal")
	vAssert(c07SameTime(back.InvokedAt(), tkn.InvokedAt()), "the issue time changes across seal/unseal")
	vAssert(back.Meta().Equals(tkn.Meta()), "the metadata changes across seal/unseal")
	vAssert(back.Arguments().Equals(tkn.Arguments()), "the arguments change across seal/unseal")
	vAssert(len(back.Proof()) == len(tkn.Proof()), "the proofs change across seal/unseal")
	for i := range tkn.Proof() {
		if i < len(back.Proof()) {
			vAssert(back.Proof()[i] == tkn.Proof()[i], "the proofs change across seal/unseal")
		}
	}
}

func c07Int(tag string) int64 {
	v := vI64(tag)
	vAssume(v <= 1<<53-1)
	vAssume(v >= -(1<<53 - 1))
	return v
}


// VerifC07Issuers: a token issued by a key of every algorithm and size the
// did package produces (identifier built as FromPubKey builds it) is rebuilt
// with the same issuer: what can issue can be read back.
func VerifC07Issuers() {
	c07Install()
	c07Now = vClockSec()
	iss := did.VerifDIDOfSize(vChoose("issuer", 8))
	tkn, err := New(iss, did.MustParse(c10DidB), command.Top(), nil)
	vAssert(err == nil, "the constructor refuses an issuer of a generatable key type")
	if err != nil {
		return
	}
	_, err = tkn.toIPLD(c07Key{})
	vAssert(err == nil && c07Captured != nil, "a token of a generatable key type cannot be sealed")
	if err != nil || c07Captured == nil {
		return
	}
	back, err := tokenFromModel(*c07Captured)
	vReach("unsealed")
	vAssert(err == nil, "a token issued by a generatable key type is rejected when unsealed")
	if err == nil {
		vAssert(back.Issuer() == iss, "the issuer changes across seal/unseal")
	}
}
