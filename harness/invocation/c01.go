//go:build verif

package invocation

import (
	"github.com/ipfs/go-cid"

	"github.com/ucan-wg/go-ucan/did"
	"github.com/ucan-wg/go-ucan/pkg/args"
	"github.com/ucan-wg/go-ucan/pkg/command"
)

// VerifC01: allowed => the chain satisfies the principal rules; and the
// invocation's audience has no influence on the verdict.
func VerifC01() {
	vClockSec()
	n := vChoose("n", vParam("N")+1)
	invIss := did.VerifDID(vU8("inv_iss"))
	invSub := did.VerifDID(vU8("inv_sub"))
	invAud := did.Undef
	if vBool("inv_aud_defined") {
		invAud = did.VerifDID(vU8("inv_aud"))
	}
	ch := &verifChain{}
	for i := 0; i < n; i++ {
		l := verifLink{iss: did.VerifDID(vU8("d_iss")), aud: did.VerifDID(vU8("d_aud")), sub: did.Undef, cmd: command.Top()}
		if vBool("d_sub_defined") {
			l.sub = did.VerifDID(vU8("d_sub"))
		}
		l.loadable = vBool("d_loadable")
		ch.links = append(ch.links, l)
		ch.cids = append(ch.cids, verifCid(i))
	}
	// optional aliasing of proof slots: slot n-1 may reference the same CID as slot 0
	prf := append([]cid.Cid{}, ch.cids...)
	if n >= 2 && vParam("DUP") == 1 && vBool("dup_last_is_first") {
		prf[n-1] = prf[0]
	}
	inv := verifInvocation(invIss, invSub, invAud, command.Top(), nil, prf, nil)
	// history: the same token may have been checked before, against another
	// loader (everything loadable / nothing loadable); the verdict of this
	// check must only depend on the loader it is given
	switch vChoose("checked_before", 3) {
	case 1:
		all := ch.loader()
		for i := range all.ok {
			all.ok[i] = true
		}
		_ = inv.ExecutionAllowed(all)
	case 2:
		none := ch.loader()
		for i := range none.ok {
			none.ok[i] = false
		}
		_ = inv.ExecutionAllowed(none)
	}
	err := inv.ExecutionAllowed(ch.loader())

	// effective links as seen by the validator (after aliasing)
	eff := append([]verifLink{}, ch.links...)
	if n >= 2 && prf[n-1] == prf[0] {
		eff[n-1] = eff[0]
	}
	if err == nil {
		vReach("allowed")
		vAssert(verifPrincipalsSpec(invIss, invSub, eff), "allowed although the chain violates the principal rules (root / alignment / subject / loadable / non-empty)")
	} else {
		vReach("denied")
	}

	// audience independence: same chain, other audience, same verdict
	otherAud := did.Undef
	if vBool("other_aud_defined") {
		otherAud = did.VerifDID(vU8("other_aud"))
	}
	inv2 := verifInvocation(invIss, invSub, otherAud, command.Top(), nil, prf, nil)
	err2 := inv2.ExecutionAllowed(ch.loader())
	vAssert((err == nil) == (err2 == nil), "the invocation's audience changed the authorisation verdict")

	// the args-hook entry point gives the same verdict with an identity hook
	err3 := inv.ExecutionAllowedWithArgsHook(ch.loader(), func(ro args.ReadOnly) (*args.Args, error) { return args.New(), nil })
	vAssert((err == nil) == (err3 == nil), "ExecutionAllowedWithArgsHook disagrees with ExecutionAllowed on principals")
}
