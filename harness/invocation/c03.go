//go:build verif

package invocation

import (
	"github.com/ipld/go-ipld-prime/node/basicnode"

	"github.com/ucan-wg/go-ucan/pkg/args"
	"github.com/ucan-wg/go-ucan/pkg/command"
	"github.com/ucan-wg/go-ucan/pkg/policy"
)

type verifStmt struct {
	link int
	op   int // 0 == 1 < 2 <= 3 > 4 >=
	sel  int // 0 .a  1 .b  2 .a?
	c    int64
}

var verifSelText = []string{".a", ".b", ".a?"}

func verifStmtCtor(s verifStmt) policy.Constructor {
	v := basicnode.NewInt(s.c)
	switch s.op {
	case 0:
		return policy.Equal(verifSelText[s.sel], v)
	case 1:
		return policy.LessThan(verifSelText[s.sel], v)
	case 2:
		return policy.LessThanOrEqual(verifSelText[s.sel], v)
	case 3:
		return policy.GreaterThan(verifSelText[s.sel], v)
	}
	return policy.GreaterThanOrEqual(verifSelText[s.sel], v)
}

// verifStmtHolds: classical reading of one comparison on the argument view.
func verifStmtHolds(s verifStmt, hasA, hasB bool, a, b int64) bool {
	present, x := hasA, a
	if s.sel == 1 {
		present, x = hasB, b
	}
	if !present {
		return s.sel == 2 // missing optional passes, missing required fails
	}
	switch s.op {
	case 0:
		return x == s.c
	case 1:
		return x < s.c
	case 2:
		return x <= s.c
	case 3:
		return x > s.c
	}
	return x >= s.c
}

func verifInt53(tag string) int64 {
	v := vI64(tag)
	vAssume(v <= verifMaxInt53)
	vAssume(v >= -verifMaxInt53)
	return v
}

func verifArgs(hasA, hasB bool, a, b int64, order int) *args.Args {
	ar := args.New()
	add := func(k string, v int64) {
		if err := ar.Add(k, v); err != nil {
			vSkip("unreachable: int53 argument rejected")
		}
	}
	if order == 0 {
		if hasA {
			add("a", a)
		}
		if hasB {
			add("b", b)
		}
	} else {
		if hasB {
			add("b", b)
		}
		if hasA {
			add("a", a)
		}
	}
	return ar
}

type verifC03Setup struct {
	n            int
	stmts        []verifStmt
	perLink      [][]policy.Constructor
	perLinkLess  [][]policy.Constructor
	hasA, hasB   bool
	a, b         int64
	order        int
}

func verifC03Inputs() *verifC03Setup {
	vClockSec()
	st := &verifC03Setup{}
	st.n = 1 + vChoose("n", vParam("N"))
	T := vChoose("nstmts", vParam("T")+1)
	st.stmts = make([]verifStmt, T)
	st.perLink = make([][]policy.Constructor, st.n)
	st.perLinkLess = make([][]policy.Constructor, st.n)
	for i := range st.stmts {
		s := verifStmt{link: vChoose("link", st.n), op: vChoose("op", 5), sel: vChoose("sel", 3), c: verifInt53("c")}
		st.stmts[i] = s
		st.perLink[s.link] = append(st.perLink[s.link], verifStmtCtor(s))
		if i < T-1 {
			st.perLinkLess[s.link] = append(st.perLinkLess[s.link], verifStmtCtor(s))
		}
	}
	st.hasA, st.hasB = vBool("has_a"), vBool("has_b")
	if st.hasA {
		st.a = verifInt53("a")
	}
	if st.hasB {
		st.b = verifInt53("b")
	}
	if st.hasA && st.hasB {
		st.order = vChoose("insertion_order", 2)
	}
	return st
}

func (st *verifC03Setup) run(ctors [][]policy.Constructor) (*Token, *verifChain) {
	invIss, sub, links := verifConformingLinks(st.n)
	for i := range links {
		pol, err := policy.Construct(ctors[i]...)
		if err != nil {
			vSkip("unreachable: constructor failed")
		}
		links[i].pol = pol
	}
	ch := &verifChain{links: links, cids: verifCids(st.n)}
	inv := verifInvocation(invIss, sub, sub, command.Top(), verifArgs(st.hasA, st.hasB, st.a, st.b, st.order), ch.cids, nil)
	return inv, ch
}

func (st *verifC03Setup) holds(hasA, hasB bool, a, b int64) bool {
	all := true
	for _, s := range st.stmts {
		all = vAnd(all, verifStmtHolds(s, hasA, hasB, a, b))
	}
	return all
}

// VerifC03: allowed => the arguments satisfy every statement of every link.
func VerifC03() {
	st := verifC03Inputs()
	inv, ch := st.run(st.perLink)
	err := inv.ExecutionAllowed(ch.loader())
	if err == nil {
		vReach("allowed")
		vAssert(st.holds(st.hasA, st.hasB, st.a, st.b), "allowed although the arguments violate a policy statement of a delegation in the chain")
	} else {
		vReach("denied")
	}
}

// VerifC03Mono: adding a statement never turns a denied invocation into an allowed one.
func VerifC03Mono() {
	st := verifC03Inputs()
	if len(st.stmts) == 0 {
		vSkip("no statement to drop")
	}
	inv, ch := st.run(st.perLink)
	inv2, ch2 := st.run(st.perLinkLess)
	err2 := inv2.ExecutionAllowed(ch2.loader())
	if err2 == nil {
		vReach("smaller-allowed")
		return
	}
	vReach("smaller-denied")
	err := inv.ExecutionAllowed(ch.loader())
	vAssert(err != nil, "adding a statement turned a denied invocation into an allowed one")
}

// VerifC03Hook: with an argument hook the arguments it returns are the ones checked.
func VerifC03Hook() {
	st := verifC03Inputs()
	inv, ch := st.run(st.perLink)
	ha, hb := verifInt53("hook_a"), verifInt53("hook_b")
	err := inv.ExecutionAllowedWithArgsHook(ch.loader(), func(ro args.ReadOnly) (*args.Args, error) {
		return verifArgs(true, true, ha, hb, 0), nil
	})
	if err == nil {
		vReach("hook-allowed")
		vAssert(st.holds(true, true, ha, hb), "with an argument hook, allowed although the hook's arguments violate a statement")
	} else {
		vReach("hook-denied")
		// conforming chain, so the only possible reason is a violated statement
		vAssert(!st.holds(true, true, ha, hb), "with an argument hook, denied although the hook's arguments satisfy every statement (the token's own arguments were checked?)")
	}
}
