//go:build verif

package envelope

import (
	"bytes"
	"errors"
	"io"
)

var errC18 = errors.New("c18: injected I/O fault")

type c18Reader struct {
	data    []byte
	pos     int
	chunk   int
	cut     int
	fault   int // 0 none, 1 read error at cut, 2 early end at cut
	withEOF bool
}

func (r *c18Reader) Read(p []byte) (int, error) {
	if r.pos >= r.cut {
		if r.fault == 1 {
			return 0, errC18
		}
		return 0, io.EOF
	}
	n := len(p)
	if n > r.chunk {
		n = r.chunk
	}
	if n > r.cut-r.pos {
		n = r.cut - r.pos
	}
	copy(p, r.data[r.pos:r.pos+n])
	r.pos += n
	if r.pos >= r.cut && r.withEOF && r.fault != 1 {
		return n, io.EOF
	}
	return n, nil
}

func c18Data(n int) []byte {
	b := make([]byte, n)
	for i := range b {
		b[i] = byte(i*7 + 3)
	}
	return b
}

var c18Chunks = []int{1, 3, 64, 127, 128, 200, 1 << 20}

// VerifC18CIDReader: the CID computed while reading a stream is the CID of
// exactly the bytes that were delivered, however the stream is chunked
// (including a last chunk that comes together with io.EOF); after a read
// error, CID() reports the error instead of a CID.
func VerifC18CIDReader() {
	n := []int{0, 1, 5, 130}[vChoose("size", 4)]
	data := c18Data(n)
	chunk := c18Chunks[vChoose("chunk", len(c18Chunks))]
	bufSize := []int{1, 64, 512}[vChoose("bufsize", 3)]
	withEOF := vChoose("data_with_eof", 2) == 1
	fault := vChoose("fault", 2)
	cut := n
	if fault == 1 {
		cut = vChoose("offset", n+1)
	}
	r := NewCIDReader(&c18Reader{data: data, chunk: chunk, cut: cut, fault: fault, withEOF: withEOF})
	var got []byte
	var rerr error
	buf := make([]byte, bufSize)
	for {
		m, err := r.Read(buf)
		got = append(got, buf[:m]...)
		if err != nil {
			if err != io.EOF {
				rerr = err
			}
			break
		}
	}
	id, cerr := r.CID()
	if fault == 1 {
		vReach("read-error")
		vAssert(rerr != nil, "CIDReader swallowed a read error")
		vAssert(cerr != nil, "CIDReader.CID returns a CID although reading failed")
		return
	}
	vReach("read-ok")
	vAssert(rerr == nil && bytes.Equal(got, data), "CIDReader altered the stream")
	vAssert(cerr == nil, "CIDReader.CID fails on an intact stream")
	want, _ := CIDFromBytes(data)
	vAssert(id == want, "the CID computed while streaming differs from the CID of the same bytes in memory")
}

type c18Sink struct {
	buf      bytes.Buffer
	okWrites int
	calls    int
	failed   bool
}

func (s *c18Sink) Write(p []byte) (int, error) {
	s.calls++
	if s.calls > s.okWrites {
		s.failed = true
		return 0, errC18
	}
	return s.buf.Write(p)
}

// VerifC18CIDWriter: the CID computed while writing a stream is the CID of
// exactly the bytes written, whatever the sizes of the individual writes; a
// failing underlying writer makes Write fail.
func VerifC18CIDWriter() {
	// three writes of chosen sizes: small pieces around one large piece in any position
	sizes := []int{0, 1, 9, 127, 128, 200}
	var parts [][]byte
	total := 0
	for i := 0; i < 3; i++ {
		n := sizes[vChoose("write"+string(rune('0'+i)), len(sizes))]
		p := c18Data(n + i)[i:]
		parts = append(parts, p)
		total += n
	}
	failAt := vChoose("fail_at_write", 4) // 3 = no fault
	sink := &c18Sink{okWrites: failAt}
	w := NewCIDWriter(sink)
	var werr error
	var all []byte
	for _, p := range parts {
		m, err := w.Write(p)
		if err != nil {
			werr = err
			break
		}
		vAssert(m == len(p), "CIDWriter reports a short write without error")
		all = append(all, p...)
	}
	if sink.failed {
		vReach("sink-failed")
		vAssert(werr != nil, "CIDWriter swallowed a write error of the underlying stream")
		return
	}
	vReach("sink-ok")
	vAssert(werr == nil, "CIDWriter fails on a healthy stream")
	vAssert(bytes.Equal(sink.buf.Bytes(), all), "CIDWriter altered the stream")
	id, cerr := w.CID()
	vAssert(cerr == nil, "CIDWriter.CID fails on a healthy stream")
	want, _ := CIDFromBytes(all)
	vAssert(id == want, "the CID computed while streaming out differs from the CID of the bytes written")
}
