//go:build verif

package envelope

import (
	"github.com/ipld/go-ipld-prime/datamodel"
)

// VerifSignedPart exposes what FromIPLD would verify: the signature bytes and
// the SigPayload node of an envelope (nil, nil, false if Inspect rejects it).
func VerifSignedPart(node datamodel.Node) ([]byte, datamodel.Node, bool) {
	info, err := Inspect(node)
	if err != nil {
		return nil, nil, false
	}
	return info.Signature, info.sigPayloadNode, true
}

// VerifC08CidFormat: the CID of a byte string is CIDv1, DAG-CBOR codec,
// SHA2-256 with a 32-byte digest.
func VerifC08CidFormat() {
	n := []int{0, 1, 55, 56, 64, 130}[vChoose("size", 6)]
	data := make([]byte, n)
	for i := range data {
		data[i] = byte(i*13 + 1)
	}
	c, err := CIDFromBytes(data)
	vAssert(err == nil, "CIDFromBytes fails")
	vReach("hashed")
	b := c.Bytes()
	vAssert(len(b) == 36 && b[0] == 1 && b[1] == 0x71 && b[2] == 0x12 && b[3] == 0x20, "the CID is not CIDv1 / dag-cbor / sha2-256 with a 32-byte digest")
	p := c.Prefix()
	vAssert(p.Version == 1 && p.Codec == 0x71 && p.MhType == 0x12 && p.MhLength == 32, "the CID prefix is not CIDv1 / dag-cbor / sha2-256")
	again, err := p.Sum(data)
	vAssert(err == nil && again == c, "hashing the same bytes under the CID's own prefix gives another CID")
}
