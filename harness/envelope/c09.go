//go:build verif

package envelope

import (
	"github.com/ipld/go-ipld-prime"
	"github.com/ipld/go-ipld-prime/datamodel"
	"github.com/ipld/go-ipld-prime/fluent/qp"
	"github.com/ipld/go-ipld-prime/node/basicnode"
)

func c09Leaf(tag string) ipld.Node {
	switch vChoose(tag, 7) {
	case 0:
		return datamodel.Null
	case 1:
		return basicnode.NewBool(true)
	case 2:
		return basicnode.NewInt(vI64(tag + "_i"))
	case 3:
		return basicnode.NewString("ucan/x")
	case 4:
		return basicnode.NewBytes([]byte{1})
	case 5:
		nd, _ := qp.BuildList(basicnode.Prototype.Any, 0, func(la datamodel.ListAssembler) {})
		return nd
	}
	keys := []string{"h", "ucan/x", "x"}
	n := vChoose(tag+"_n", 4)
	nd, err := qp.BuildMap(basicnode.Prototype.Any, int64(n), func(ma datamodel.MapAssembler) {
		for i := 0; i < n; i++ {
			if vChoose(tag+"_v"+string(rune('0'+i)), 2) == 0 {
				qp.MapEntry(ma, keys[i], qp.Bytes([]byte{0x34}))
			} else {
				qp.MapEntry(ma, keys[i], qp.Int(1))
			}
		}
	})
	if err != nil {
		vSkip("unreachable: build failed")
	}
	return nd
}

// VerifC09Inspect: any IPLD node offered as an envelope is inspected or
// rejected without panicking.
func VerifC09Inspect() {
	var node ipld.Node
	if vChoose("outer_is_list", 2) == 0 {
		node = c09Leaf("outer")
	} else {
		n := vChoose("outer_len", 4)
		items := make([]ipld.Node, n)
		for i := range items {
			items[i] = c09Leaf("e" + string(rune('0'+i)))
		}
		var err error
		node, err = qp.BuildList(basicnode.Prototype.Any, int64(n), func(la datamodel.ListAssembler) {
			for _, it := range items {
				qp.ListEntry(la, qp.Node(it))
			}
		})
		if err != nil {
			vSkip("unreachable: build failed")
		}
	}
	_, err := Inspect(node)
	if err != nil {
		vReach("rejected")
	} else {
		vReach("accepted")
	}
	_, _ = FindTag(node)
}
