//go:build verif

package did

import (
	"crypto/ecdsa"
	"crypto/elliptic"
	"crypto/rsa"
	"math/big"

	crypto "github.com/libp2p/go-libp2p/core/crypto"
	"github.com/libp2p/go-libp2p/core/crypto/pb"
	mbase "github.com/multiformats/go-multibase"
	"github.com/multiformats/go-multicodec"
	varint "github.com/multiformats/go-varint"
)

// ---------------------------------------------------------------------------
// C16 — did:key text, DID value and public key convert back and forth.
//
// The key libraries (curve arithmetic, x509/DER, libp2p key objects) are
// replaced by stand-ins that model a key as its canonical did:key material
// and keep the acceptance contract of each primitive:
//   - Ed25519: exactly 32 bytes, any value; canonical
//   - compressed NIST points: a valid encoding is canonical; invalid ones
//     yield nil coordinates
//   - secp256k1 (libp2p/decred ParsePubKey): accepts the 33-byte compressed
//     form (canonical) and the 65-byte uncompressed/hybrid forms of the same
//     point
//   - PKCS#1 DER: a valid encoding is canonical
//   - the PKIX intermediate only carries the key's identity
// What is decided is go-ucan's own logic around them: code tables, varint
// handling, which encodings Parse/PubKey let through, and that FromPubKey
// and Parse/PubKey are mutually inverse on what they accept.
// ---------------------------------------------------------------------------

type c16Key struct {
	t     pb.KeyType
	code  multicodec.Code // for ECDSA: the curve
	canon []byte          // canonical key material (what a did:key carries after the multicodec)
	idx   int
}

var c16Keys []*c16Key
var c16Cur int // the key the std-library intermediates currently stand for

func c16New(t pb.KeyType, code multicodec.Code, canon []byte) *c16Key {
	k := &c16Key{t: t, code: code, canon: canon, idx: len(c16Keys)}
	c16Keys = append(c16Keys, k)
	return k
}

func (k *c16Key) Equals(o crypto.Key) bool {
	ok, isK := o.(*c16Key)
	return isK && ok.idx == k.idx
}
func (k *c16Key) Type() pb.KeyType                      { return k.t }
func (k *c16Key) Verify(data, sig []byte) (bool, error) { return false, nil }
func (k *c16Key) Raw() ([]byte, error) {
	if k.t == pb.KeyType_Ed25519 || k.t == pb.KeyType_Secp256k1 {
		return k.canon, nil
	}
	return []byte{0xAA, byte(k.idx)}, nil // "PKIX": identity only
}

type c16Curve multicodec.Code

func (c c16Curve) Params() *elliptic.CurveParams                        { return nil }
func (c c16Curve) IsOnCurve(x, y *big.Int) bool                         { return true }
func (c c16Curve) Add(x1, y1, x2, y2 *big.Int) (*big.Int, *big.Int)     { return nil, nil }
func (c c16Curve) Double(x1, y1 *big.Int) (*big.Int, *big.Int)          { return nil, nil }
func (c c16Curve) ScalarMult(x, y *big.Int, k []byte) (*big.Int, *big.Int) { return nil, nil }
func (c c16Curve) ScalarBaseMult(k []byte) (*big.Int, *big.Int)         { return nil, nil }

func c16Marker(b []byte) (int, bool) {
	if len(b) == 2 && b[0] == 0xAA && int(b[1]) < len(c16Keys) {
		return int(b[1]), true
	}
	return 0, false
}

func c16Install() {
	c16Keys = nil
	c16Cur = -1
	VCall_elliptic_P256 = func() elliptic.Curve { return c16Curve(P256) }
	VCall_elliptic_P384 = func() elliptic.Curve { return c16Curve(P384) }
	VCall_elliptic_P521 = func() elliptic.Curve { return c16Curve(P521) }
	// ---- key extraction side (did.go) ----
	VCall_crypto_UnmarshalEd25519PublicKey = func(data []byte) (crypto.PubKey, error) {
		if len(data) != 32 {
			return nil, errC09
		}
		return c16New(pb.KeyType_Ed25519, Ed25519, data), nil
	}
	VCall_crypto_UnmarshalSecp256k1PublicKey = func(data []byte) (crypto.PubKey, error) {
		switch {
		case len(data) == 33 && (data[0] == 2 || data[0] == 3):
			if vBool("secp_point_invalid") {
				return nil, errC09
			}
			return c16New(pb.KeyType_Secp256k1, Secp256k1, data), nil
		case len(data) == 65 && (data[0] == 4 || data[0] == 6 || data[0] == 7):
			if vBool("secp_point_invalid") {
				return nil, errC09
			}
			// the same point; its canonical material is the compressed form
			comp := append([]byte{2 + byte(data[64]&1)}, data[1:33]...)
			return c16New(pb.KeyType_Secp256k1, Secp256k1, comp), nil
		}
		return nil, errC09
	}
	VCall_elliptic_UnmarshalCompressed = func(curve elliptic.Curve, data []byte) (*big.Int, *big.Int) {
		if vBool("point_invalid") {
			return nil, nil
		}
		c16Cur = c16New(pb.KeyType_ECDSA, multicodec.Code(curve.(c16Curve)), data).idx
		return new(big.Int), new(big.Int)
	}
	VCall_x509_MarshalPKIXPublicKey = func(pub any) ([]byte, error) {
		if k, ok := pub.(*ecdsa.PublicKey); ok && (k.X == nil || k.Y == nil) {
			panic("x509.MarshalPKIXPublicKey: nil coordinate dereferenced")
		}
		return []byte{0xAA, byte(c16Cur)}, nil
	}
	VCall_x509_ParsePKCS1PublicKey = func(der []byte) (*rsa.PublicKey, error) {
		if vBool("pkcs1_invalid") {
			return nil, errC09
		}
		c16Cur = c16New(pb.KeyType_RSA, RSA, der).idx
		return &rsa.PublicKey{N: new(big.Int), E: 3}, nil
	}
	foreign := func(t pb.KeyType, code multicodec.Code, data []byte, tag string) (crypto.PubKey, error) {
		// bytes that are not the PKIX form this package produced: a lenient
		// primitive may still make a key of them; its canonical did:key
		// material is then something else than these bytes
		if vBool(tag + "_foreign_rejected") {
			return nil, errC09
		}
		canon := vBytes(tag+"_foreign_canon", len(data))
		vAssume(vNot(vEqBytes(canon, data)))
		return c16New(t, code, canon), nil
	}
	VCall_crypto_UnmarshalECDSAPublicKey = func(b []byte) (crypto.PubKey, error) {
		if i, ok := c16Marker(b); ok {
			return c16Keys[i], nil
		}
		return foreign(pb.KeyType_ECDSA, P256, b, "ecdsa")
	}
	VCall_crypto_UnmarshalRsaPublicKey = func(b []byte) (crypto.PubKey, error) {
		if i, ok := c16Marker(b); ok {
			return c16Keys[i], nil
		}
		return foreign(pb.KeyType_RSA, RSA, b, "rsa")
	}
	// ---- key to DID side (crypto.go) ----
	VStub_codeForCurve = func(pubKey crypto.PubKey) (multicodec.Code, error) {
		return pubKey.(*c16Key).code, nil
	}
	VStub_coerceECDSAToSecp256k1 = func(pubKey crypto.PubKey) (crypto.PubKey, error) {
		k := pubKey.(*c16Key)
		return c16New(pb.KeyType_Secp256k1, Secp256k1, k.canon), nil
	}
	VCall_x509_ParsePKIXPublicKey = func(b []byte) (any, error) {
		i, ok := c16Marker(b)
		if !ok {
			return nil, errC09
		}
		c16Cur = i
		if c16Keys[i].t == pb.KeyType_RSA {
			return &rsa.PublicKey{N: new(big.Int), E: 3}, nil
		}
		return &ecdsa.PublicKey{Curve: c16Curve(c16Keys[i].code), X: new(big.Int), Y: new(big.Int)}, nil
	}
	VCall_elliptic_MarshalCompressed = func(curve elliptic.Curve, x, y *big.Int) []byte { return c16Keys[c16Cur].canon }
	VCall_x509_MarshalPKCS1PublicKey = func(k *rsa.PublicKey) []byte { return c16Keys[c16Cur].canon }
}

var c16Recorded []byte

// c16Multibase: base58btc is replaced by "remember the bytes" (the text is
// not modelled; the real codec is exercised by VerifC16Text).
func c16Multibase() {
	VCall_mbase_Encode = func(base mbase.Encoding, data []byte) (string, error) {
		c16Recorded = append([]byte{}, data...)
		return "zRECORDED", nil
	}
	VCall_mbase_Decode = func(s string) (mbase.Encoding, []byte, error) {
		return mbase.Base58BTC, c16Recorded, nil
	}
}

var c16Codes = []multicodec.Code{Ed25519, Secp256k1, P256, P384, P521, RSA}
var c16Lens = [][]int{{32, 31, 0}, {33, 65, 0}, {33, 0, 1}, {49, 0}, {67, 0}, {5, 0}}

// VerifC16Canonical: an accepted identifier from which a key can be
// extracted is the canonical identifier of that key (one principal, one DID).
func VerifC16Canonical() {
	c16Install()
	ci := vChoose("code", len(c16Codes))
	n := c16Lens[ci][vChoose("keylen", len(c16Lens[ci]))]
	id := append(varint.ToUvarint(uint64(c16Codes[ci])), vBytes("key", n)...)
	VCall_mbase_Decode = func(s string) (mbase.Encoding, []byte, error) { return mbase.Base58BTC, id, nil }
	d, err := Parse("did:key:zXX")
	if err != nil {
		vReach("not-parsed")
		return
	}
	k, err := d.PubKey()
	if err != nil {
		vReach("no-key")
		return
	}
	vReach("key")
	d2, err := FromPubKey(k)
	vAssert(err == nil, "a key extracted from an accepted identifier cannot be turned back into a DID")
	if err == nil {
		vAssert(d2 == d, "an accepted identifier from which a key can be extracted is not the canonical identifier of that key (two DIDs for one principal)")
	}
}

// VerifC16RoundTrip: for every key of an algorithm the package handles, the
// DID built from it prints to a text that parses back to an equal DID, which
// yields the original key.
func VerifC16RoundTrip() {
	c16Install()
	c16Multibase()
	var k *c16Key
	switch vChoose("keytype", 7) {
	case 0:
		k = c16New(pb.KeyType_Ed25519, Ed25519, vBytes("key", 32))
	case 1:
		k = c16New(pb.KeyType_Secp256k1, Secp256k1, append([]byte{2 + vU8("parity")&1}, vBytes("key", 32)...))
	case 2:
		k = c16New(pb.KeyType_ECDSA, P256, vBytes("key", 33))
	case 3:
		k = c16New(pb.KeyType_ECDSA, P384, vBytes("key", 49))
	case 4:
		k = c16New(pb.KeyType_ECDSA, P521, vBytes("key", 67))
	case 5:
		k = c16New(pb.KeyType_ECDSA, Secp256k1, append([]byte{2 + vU8("parity")&1}, vBytes("key", 32)...))
	default:
		k = c16New(pb.KeyType_RSA, RSA, vBytes("key", 6))
	}
	d, err := FromPubKey(k)
	vAssert(err == nil, "FromPubKey refuses a key of an algorithm the package generates")
	if err != nil {
		return
	}
	vReach("did-built")
	vAssert(d.Defined(), "FromPubKey returned an undefined DID")
	text := d.String()
	d2, err := Parse(text)
	vAssert(err == nil, "the did:key text of a generatable key does not parse back")
	if err != nil {
		return
	}
	vAssert(d2 == d, "parsing the did:key text gives a different DID")
	k2, err := d2.PubKey()
	// the stand-ins may declare the material invalid; a valid one must come back
	if err != nil {
		vReach("material-declared-invalid")
		return
	}
	vReach("key-back")
	kk, ok := k2.(*c16Key)
	vAssert(ok && kk.t == ktype(k) && vEqBytes(kk.canon, k.canon), "the key extracted from the DID differs from the key it was built from")
}

func ktype(k *c16Key) pb.KeyType {
	if k.t == pb.KeyType_ECDSA && k.code == Secp256k1 {
		return pb.KeyType_Secp256k1 // documented coercion
	}
	return k.t
}

// c16Uvarint: reference decoding of a minimal unsigned varint of up to 3 bytes.
func c16Uvarint(b []byte) (v uint64, n int, ok bool) {
	for i := 0; i < len(b) && i < 3; i++ {
		v |= uint64(b[i]&0x7f) << (7 * uint(i))
		if b[i] < 0x80 {
			if i > 0 && b[i] == 0 {
				return 0, 0, false // not minimal
			}
			return v, i + 1, true
		}
	}
	return 0, 0, false
}

// VerifC16ParseRejects: Parse accepts only "did:key:" + base58btc + a minimal
// varint naming a supported key type; Defined() is "not Undef".
func VerifC16ParseRejects() {
	prefix := vString("prefix", 8)
	enc := vI32("encoding")
	n := vChoose("id_len", vParam("N")+1)
	id := vBytes("id", n)
	mbFails := vBool("multibase_fails")
	VCall_mbase_Decode = func(s string) (mbase.Encoding, []byte, error) {
		if mbFails {
			return -1, nil, errC09
		}
		return mbase.Encoding(enc), id, nil
	}
	d, err := Parse(prefix + "zXX")
	if err != nil {
		vReach("rejected")
		vAssert(d == Undef && !d.Defined(), "Parse returned an error together with a defined DID")
		return
	}
	vReach("accepted")
	vAssert(d.Defined() && d != Undef, "Parse returned an undefined DID without error")
	vAssert(vEqStr(prefix, "did:key:"), "Parse accepted a text that does not start with did:key:")
	vAssert(!mbFails, "Parse accepted a text whose multibase decoding failed")
	vAssert(enc == int32(mbase.Base58BTC), "Parse accepted an identifier that is not base58btc")
	code, _, ok := c16Uvarint(id)
	vAssert(ok, "Parse accepted an identifier without a minimal multicodec varint")
	if ok {
		sup := false
		for _, c := range c16Codes {
			sup = vOr(sup, code == uint64(c))
		}
		vAssert(sup, "Parse accepted an unsupported key type")
	}
}

// VerifC16Text: the real base58btc text form of identifiers of every size
// FromPubKey can produce parses back to the same DID (content concrete: the
// base conversion is division-heavy; sizes enumerated).
func VerifC16Text() {
	// natively the hook variables keep what an earlier replayed entry put there
	VCall_mbase_Encode, VCall_mbase_Decode = mbase.Encode, mbase.Decode
	sizes := [][2]int{{0, 32}, {1, 33}, {2, 33}, {3, 49}, {4, 67}, {5, 140}, {5, 270}, {5, 398}, {5, 526}}
	s := sizes[vChoose("size", len(sizes))]
	b := varint.ToUvarint(uint64(c16Codes[s[0]]))
	for i := 0; i < s[1]; i++ {
		b = append(b, byte(i*37+11))
	}
	d := DID{code: c16Codes[s[0]], bytes: string(b)}
	text := d.String()
	vReach("printed")
	d2, err := Parse(text)
	vAssert(err == nil, "the did:key text of an identifier of a size FromPubKey produces does not parse back")
	if err == nil {
		vAssert(d2 == d, "parsing the did:key text gives a different DID")
	}
}
