//go:build verif

package did

import (
	"crypto/ecdsa"
	"crypto/elliptic"
	"crypto/rsa"
	"errors"
	"math/big"

	crypto "github.com/libp2p/go-libp2p/core/crypto"
	"github.com/libp2p/go-libp2p/core/crypto/pb"
	mbase "github.com/multiformats/go-multibase"
)

// c09Key stands for a key object returned by the (stubbed) key libraries.
type c09Key struct{ t pb.KeyType }

func (k c09Key) Equals(o crypto.Key) bool                 { return false }
func (k c09Key) Raw() ([]byte, error)                     { return nil, nil }
func (k c09Key) Type() pb.KeyType                         { return k.t }
func (k c09Key) Verify(data, sig []byte) (bool, error)    { return false, nil }

var errC09 = errors.New("c09: primitive refused the input")

// c09InstallPrimitives replaces the cryptographic primitives PubKey relies on
// by nondeterministic stand-ins that keep their documented contracts:
//   - elliptic.UnmarshalCompressed returns (nil, nil) for an invalid encoding;
//   - x509.MarshalPKIXPublicKey dereferences the coordinates of an ECDSA key
//     (it requires them to be non-nil);
//   - the unmarshal functions return a key or an error.
func c09InstallPrimitives() {
	// curve parameters are big-number tables; the stand-ins below never look at them
	VCall_elliptic_P256 = func() elliptic.Curve { return nil }
	VCall_elliptic_P384 = func() elliptic.Curve { return nil }
	VCall_elliptic_P521 = func() elliptic.Curve { return nil }
	VCall_elliptic_UnmarshalCompressed = func(curve elliptic.Curve, data []byte) (*big.Int, *big.Int) {
		if vBool("point_is_valid") {
			return new(big.Int), new(big.Int)
		}
		return nil, nil
	}
	VCall_x509_MarshalPKIXPublicKey = func(pub any) ([]byte, error) {
		if k, ok := pub.(*ecdsa.PublicKey); ok {
			if k.X == nil || k.Y == nil {
				panic("x509.MarshalPKIXPublicKey: nil coordinate dereferenced (the caller passed an invalid point)")
			}
		}
		if vBool("pkix_fails") {
			return nil, errC09
		}
		return []byte{0x30}, nil
	}
	VCall_x509_ParsePKCS1PublicKey = func(der []byte) (*rsa.PublicKey, error) {
		if vBool("pkcs1_fails") {
			return nil, errC09
		}
		return &rsa.PublicKey{N: new(big.Int), E: 3}, nil
	}
	VCall_crypto_UnmarshalECDSAPublicKey = func(b []byte) (crypto.PubKey, error) {
		if vBool("ecdsa_unmarshal_fails") {
			return nil, errC09
		}
		return c09Key{pb.KeyType_ECDSA}, nil
	}
	VCall_crypto_UnmarshalRsaPublicKey = func(b []byte) (crypto.PubKey, error) {
		if vBool("rsa_unmarshal_fails") {
			return nil, errC09
		}
		return c09Key{pb.KeyType_RSA}, nil
	}
	VCall_crypto_UnmarshalSecp256k1PublicKey = func(b []byte) (crypto.PubKey, error) {
		if vBool("secp_unmarshal_fails") {
			return nil, errC09
		}
		return c09Key{pb.KeyType_Secp256k1}, nil
	}
}

// VerifC09DID: any identifier is parsed or rejected, and key extraction from
// any parsed DID returns a key or an error; no panic, in particular no slice
// out of range on short identifiers and no nil coordinates handed to x509.
func VerifC09DID() {
	c09InstallPrimitives()
	n := vChoose("id_len", vParam("N")+1)
	id := vBytes("id", n)
	enc := vI32("encoding")
	VCall_mbase_Decode = func(s string) (mbase.Encoding, []byte, error) {
		if vBool("multibase_fails") {
			return -1, nil, errC09
		}
		return mbase.Encoding(enc), id, nil
	}
	d, err := Parse("did:key:zXX")
	if err != nil {
		vReach("rejected")
		return
	}
	vReach("parsed")
	vAssert(d.Defined(), "Parse returned an undefined DID without error")
	vAssert(enc == int32(mbase.Base58BTC), "Parse accepted an identifier that is not base58btc")
	k, err := d.PubKey()
	if err != nil {
		vReach("no-key")
		vAssert(k == nil, "PubKey returned both a key and an error")
		return
	}
	vReach("key")
	vAssert(k != nil, "PubKey returned neither a key nor an error")
}
