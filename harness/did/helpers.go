//go:build verif

package did

// VerifDID builds a DID value directly (no key material): an Ed25519 code and
// three identifier bytes of which the last one is given. Authorisation logic
// only compares DIDs for equality, so 256 distinct principals cover every
// equality pattern of the roles in a bounded chain.
func VerifDID(b byte) DID {
	return DID{code: Ed25519, bytes: string([]byte{0xed, 0x01, b})}
}
