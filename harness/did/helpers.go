//go:build verif

package did

import "github.com/multiformats/go-multicodec"

// VerifDID builds a DID value directly (no key material): an Ed25519 code and
// three identifier bytes of which the last one is given. Authorisation logic
// only compares DIDs for equality, so 256 distinct principals cover every
// equality pattern of the roles in a bounded chain.
func VerifDID(b byte) DID {
	return DID{code: Ed25519, bytes: string([]byte{0xed, 0x01, b})}
}

// VerifDIDOfSize builds the DID of a key of the given algorithm whose key
// material has n (arbitrary, fixed) bytes: the sizes are what FromPubKey emits.
func VerifDIDOfSize(which int) DID {
	codes := []struct {
		code uint64
		n    int
	}{{uint64(Ed25519), 32}, {uint64(Secp256k1), 33}, {uint64(P256), 33}, {uint64(P384), 49}, {uint64(P521), 67}, {uint64(RSA), 270}, {uint64(RSA), 398}, {uint64(RSA), 526}}
	c := codes[which]
	var b []byte
	for v := c.code; ; v >>= 7 {
		if v < 0x80 {
			b = append(b, byte(v))
			break
		}
		b = append(b, byte(v)|0x80)
	}
	for i := 0; i < c.n; i++ {
		b = append(b, byte(i*29+7))
	}
	return DID{code: multicodec.Code(c.code), bytes: string(b)}
}
