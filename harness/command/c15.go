//go:build verif

package command

// c15Segs is the reference segmentation: the text after the leading slash,
// split at every '/'. It forks only on the positions of '/' (shapes); segment
// contents stay symbolic.
func c15Segs(s string) []string {
	if len(s) == 1 { // "/" : no segments
		return nil
	}
	var segs []string
	start := 1
	for i := 1; i < len(s); i++ {
		if s[i] == '/' {
			segs = append(segs, s[start:i])
			start = i + 1
		}
	}
	return append(segs, s[start:])
}

// c15Prefix: a is a prefix of b as lists of strings (non-forking on contents).
func c15Prefix(a, b []string) bool {
	if len(a) > len(b) {
		return false
	}
	r := true
	for i := range a {
		r = vAnd(r, vEqStr(a[i], b[i]))
	}
	return r
}

func c15EqList(a, b []string) bool {
	if len(a) != len(b) {
		return false
	}
	return c15Prefix(a, b)
}

func c15ASCII(s string) {
	for i := 0; i < len(s); i++ {
		vAssume(s[i] < 0x80)
	}
}

// c15Valid is the grammar of the property statement (ASCII bound).
func c15Valid(s string) bool {
	if len(s) == 0 {
		return false
	}
	ok := s[0] == '/'
	if len(s) > 1 {
		ok = vAnd(ok, s[len(s)-1] != '/')
	}
	for i := 0; i < len(s); i++ {
		ok = vAnd(ok, vNot(vAnd(s[i] >= 'A', s[i] <= 'Z')))
	}
	return ok
}

// VerifC15Parse: Parse accepts exactly the grammar and returns its input.
func VerifC15Parse() {
	n := vChoose("len", vParam("L")+1)
	s := vString("s", n)
	c15ASCII(s)
	want := c15Valid(s)
	c, err := Parse(s)
	if err == nil {
		vReach("accepted")
		vAssert(vEqStr(string(c), s), "Parse returned a command different from its input")
	} else {
		vReach("rejected")
	}
	vAssert((err == nil) == want, "Parse acceptance differs from the command grammar")
	vAssert(IsValid(s) == want, "IsValid differs from the command grammar")
}

// VerifC15Covers: for valid commands, Covers is the segment-prefix relation.
func VerifC15Covers() {
	la := 1 + vChoose("alen", vParam("LA"))
	lb := 1 + vChoose("blen", vParam("LB"))
	as := vString("a", la)
	bs := vString("b", lb)
	c15ASCII(as)
	c15ASCII(bs)
	a, errA := Parse(as)
	b, errB := Parse(bs)
	if errA != nil || errB != nil {
		vSkip("not a pair of valid commands")
	}
	sa, sb := c15Segs(as), c15Segs(bs)
	// the real Segments agrees with the reference segmentation
	vAssert(c15EqList(a.Segments(), sa), "Segments differs from splitting at slashes")
	got := a.Covers(b)
	want := c15Prefix(sa, sb)
	if got {
		vReach("covers")
	} else {
		vReach("not-covers")
	}
	vAssert(got == want, "Covers differs from the segment-prefix relation")
	vAssert(a.Covers(a), "Covers is not reflexive")
	vAssert(Top().Covers(b), "the top command does not cover a valid command")
	if got && b.Covers(a) {
		vReach("mutual")
		vAssert(vEqStr(as, bs), "Covers is not antisymmetric")
	}
}

// c15Greek: lower-case letters that Unicode case folding identifies with one
// another (sigma / final sigma, micro sign / mu, beta / beta symbol): distinct
// valid commands that a case-insensitive comparison would confuse.
var c15Greek = []string{"\u03c3", "\u03c2", "\u00b5", "\u03bc", "\u03b2", "\u03d0"}

// c15Text: n characters, each one of: 'a', 'b', '/', or one of the Greek
// look-alikes (shapes only: case folding of symbolic runes is table-driven and
// makes every comparison a large case split).
func c15Text(tag string, n int) string {
	alphabet := append([]string{"a", "b", "/"}, c15Greek...)
	s := ""
	for i := 0; i < n; i++ {
		s += alphabet[vChoose(tag+"_ch"+string(rune('0'+i)), len(alphabet))]
	}
	return s
}

// VerifC15CoversUnicode: the segment-prefix relation also holds between valid
// commands with non-ASCII lower-case letters, in particular letters that only
// differ by case folding.
func VerifC15CoversUnicode() {
	as := "/" + c15Text("a", 1+vChoose("alen", vParam("L")))
	bs := "/" + c15Text("b", 1+vChoose("blen", vParam("L")))
	a, errA := Parse(as)
	b, errB := Parse(bs)
	if errA != nil || errB != nil {
		vSkip("not a pair of valid commands")
	}
	sa, sb := c15Segs(as), c15Segs(bs)
	got := a.Covers(b)
	want := c15Prefix(sa, sb)
	if got {
		vReach("covers")
	} else {
		vReach("not-covers")
	}
	vAssert(got == want, "Covers differs from the segment-prefix relation (non-ASCII letters)")
	if got && b.Covers(a) {
		vAssert(vEqStr(as, bs), "Covers is not antisymmetric (non-ASCII letters)")
	}
}

// VerifC15Trans: transitivity on triples.
func VerifC15Trans() {
	L := vParam("L")
	la := 1 + vChoose("alen", L)
	lb := 1 + vChoose("blen", L)
	lc := 1 + vChoose("clen", L)
	as, bs, cs := vString("a", la), vString("b", lb), vString("c", lc)
	c15ASCII(as)
	c15ASCII(bs)
	c15ASCII(cs)
	a, e1 := Parse(as)
	b, e2 := Parse(bs)
	c, e3 := Parse(cs)
	if e1 != nil || e2 != nil || e3 != nil {
		vSkip("not valid commands")
	}
	if a.Covers(b) && b.Covers(c) {
		vReach("chain")
		vAssert(a.Covers(c), "Covers is not transitive")
	}
}

// VerifC15Join: joining segments appends exactly those (non-empty) segments.
func VerifC15Join() {
	L := vParam("L")
	S := vParam("S")
	lc := 1 + vChoose("clen", L)
	cs := vString("c", lc)
	c15ASCII(cs)
	c, err := Parse(cs)
	if err != nil {
		vSkip("not a valid command")
	}
	nseg := vChoose("nseg", 3)
	var segs []string
	var want []string
	want = append(want, c15Segs(cs)...)
	for i := 0; i < nseg; i++ {
		l := vChoose("seglen", S+1)
		s := vString("seg", l)
		for k := 0; k < len(s); k++ {
			vAssume(s[k] < 0x80)
			vAssume(s[k] != '/')
		}
		segs = append(segs, s)
		if l > 0 {
			want = append(want, s)
		}
	}
	j := c.Join(segs...)
	vReach("joined")
	vAssert(c15EqList(j.Segments(), want), "Join did not append exactly the given segments")
	vAssert(c.Covers(j), "a command does not cover its own extension")
	vAssert(c15EqList(New(segs...).Segments(), want[len(c15Segs(cs)):]), "New(segments...) does not have exactly those segments")
}

// VerifC15ParseUnicode: one two-byte UTF-8 letter inside a command: rejected
// exactly when it is an upper-case letter (title-case letters are excluded
// from the assertion: the statement does not say which side they are on).
func VerifC15ParseUnicode() {
	b0 := vU8("b0")
	b1 := vU8("b1")
	vAssume(b0 >= 0xC2)
	vAssume(b0 <= 0xDF)
	vAssume(b1 >= 0x80)
	vAssume(b1 <= 0xBF)
	r := rune(b0&0x1f)<<6 | rune(b1&0x3f)
	upper := c15IsUpper(r)
	tail := vChoose("tail", 2)
	s := "/a" + string([]byte{b0, b1})
	if tail == 1 {
		s += "/b"
	}
	_, err := Parse(s)
	if upper {
		vReach("upper")
		vAssert(err != nil, "a command containing a non-ASCII upper-case letter was accepted")
	} else {
		vReach("not-upper")
		vAssert(err == nil, "a command without upper-case letters was rejected")
	}
}
