//go:build verif

package delegation

import (
	"time"

	"github.com/ucan-wg/go-ucan/did"
	"github.com/ucan-wg/go-ucan/pkg/command"
	"github.com/ucan-wg/go-ucan/pkg/meta"
	"github.com/ucan-wg/go-ucan/pkg/policy"
)

// VerifToken builds a delegation Token field by field, as a decoder would
// have produced it (no signing, no envelope).
func VerifToken(iss, aud, sub did.DID, cmd command.Command, pol policy.Policy, nbf, exp *time.Time) *Token {
	return &Token{issuer: iss, audience: aud, subject: sub, command: cmd, policy: pol,
		nonce: make([]byte, 12), meta: meta.NewMeta(), notBefore: nbf, expiration: exp}
}

// VerifSetMeta gives a harness-built delegation its metadata.
func VerifSetMeta(t *Token, m *meta.Meta) { t.meta = m }
