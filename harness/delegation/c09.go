//go:build verif

package delegation

import (
	"github.com/ipld/go-ipld-prime/datamodel"
	"github.com/ipld/go-ipld-prime/fluent/qp"
	"github.com/ipld/go-ipld-prime/node/basicnode"
)

// VerifC09DlgDecodeHuge: a payload whose policy carries an integer beyond
// int64 (DAG-CBOR's unsigned range) is decoded or rejected, never a panic.
func VerifC09DlgDecodeHuge() {
	var m tokenPayloadModel
	m.Iss, m.Aud, m.Cmd = c10DidA, c10DidB, "/a"
	m.Nonce = make([]byte, 12)
	u := vU64("u")
	leaf := basicnode.NewUint(u)
	nested := vChoose("nested", 2) == 1
	pol, err := qp.BuildList(basicnode.Prototype.Any, 1, func(la datamodel.ListAssembler) {
		qp.ListEntry(la, qp.List(3, func(la datamodel.ListAssembler) {
			qp.ListEntry(la, qp.String("=="))
			qp.ListEntry(la, qp.String(".a"))
			if nested {
				qp.ListEntry(la, qp.List(1, func(la datamodel.ListAssembler) { qp.ListEntry(la, qp.Node(leaf)) }))
			} else {
				qp.ListEntry(la, qp.Node(leaf))
			}
		}))
	})
	if err != nil {
		vSkip("unreachable: build failed")
	}
	m.Pol = pol
	tkn, err := tokenFromModel(m)
	if err != nil {
		vReach("rejected")
		return
	}
	vReach("accepted")
	vAssert(u <= uint64(c10Max53), "decoded delegation has a policy integer beyond 2^53-1")
	_ = tkn
}
