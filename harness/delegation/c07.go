//go:build verif

package delegation

import (
	"time"

	"github.com/ipld/go-ipld-prime/datamodel"
	"github.com/ipld/go-ipld-prime/node/basicnode"
	"github.com/libp2p/go-libp2p/core/crypto"
	"github.com/libp2p/go-libp2p/core/crypto/pb"

	"github.com/ucan-wg/go-ucan/did"
	"github.com/ucan-wg/go-ucan/pkg/command"
	"github.com/ucan-wg/go-ucan/token/internal/envelope"
	"github.com/ucan-wg/go-ucan/pkg/policy"
	"github.com/ucan-wg/go-ucan/pkg/policy/literal"
)

// ---------------------------------------------------------------------------
// C07 — seal then unseal is lossless (model level).
//
// Sealing hands a payload model to envelope.ToIPLD (bindnode + DAG-CBOR +
// signature); unsealing gets a payload model back from it. That layer is
// replaced by the identity on models; what is decided is go-ucan's own pair
// toIPLD / tokenFromModel: every token a constructor accepts is turned into a
// model from which an equal token is rebuilt.
// ---------------------------------------------------------------------------

type c07Key struct{}

func (c07Key) Equals(o crypto.Key) bool                 { return true }
func (c07Key) Raw() ([]byte, error)                     { return nil, nil }
func (c07Key) Type() pb.KeyType                         { return pb.KeyType_Ed25519 }
func (c07Key) Verify(data, sig []byte) (bool, error)    { return true, nil }
func (c07Key) Sign(data []byte) ([]byte, error)         { return []byte{1}, nil }
func (c07Key) GetPublic() crypto.PubKey                 { return c07Key{} }

var c07Captured *tokenPayloadModel

func c07Install() {
	c07Captured = nil
	did.VStub_DID_PubKey = func(d did.DID) (crypto.PubKey, error) { return c07Key{}, nil }
	VCall_envelope_ToIPLD = func(privKey crypto.PrivKey, tkn envelope.Tokener) (datamodel.Node, error) {
		c07Captured = tkn.(*tokenPayloadModel)
		return nil, nil
	}
}

var c07Now int64

// c07Future: an instant at least a minute after the clock (symbolic under the
// engine, the real one natively), any second up to 2^62, whole or fractional.
func c07Future(tag string) time.Time {
	delta := vI64(tag + "_delta")
	vAssume(delta > 60)
	vAssume(delta < 1<<62-1<<41)
	// the engine's clock and the real one differ by less than 2^41 s: keep clear of
	// the 2^53 limit by that much so that both are on the same side of it
	vAssume(vOr(delta < 1<<53-1<<42, delta > 1<<53+1<<42))
	sec := c07Now + delta
	nsec := int64(0)
	if vChoose(tag+"_fraction", 2) == 1 {
		nsec = 500000000
	}
	return time.Unix(sec, nsec)
}

func c07Cmd() command.Command {
	s := vString("cmd", 1+vChoose("cmd_len", vParam("L")))
	for i := 0; i < len(s); i++ {
		vAssume(s[i] < 0x80)
	}
	return command.Command(s)
}

func c07SameTime(a, b *time.Time) bool {
	if a == nil || b == nil {
		return a == nil && b == nil
	}
	return a.Unix() == b.Unix()
}

// VerifC07Dlg: every delegation a constructor accepts survives toIPLD /
// tokenFromModel with every field intact (times at whole seconds).
func VerifC07Dlg() {
	c07Install()
	c07Now = vClockSec()
	iss, aud := did.MustParse(c10DidA), did.MustParse(c10DidB)
	var opts []Option
	if vChoose("with_nbf", 2) == 1 {
		opts = append(opts, WithNotBefore(c07Future("nbf")))
	}
	if vChoose("with_exp", 2) == 1 {
		opts = append(opts, WithExpiration(c07Future("exp")))
	}
	switch vChoose("nonce", 3) {
	case 1:
		opts = append(opts, WithNonce(vBytes("nonce", 12)))
	case 2:
		opts = append(opts, WithNonce(vBytes("nonce", 13)))
	}
	switch vChoose("with_meta", 3) {
	case 1:
		opts = append(opts, WithMeta("k", c07Int("meta")))
	case 2: // an IPLD node is an accepted metadata value and is taken as it is
		opts = append(opts, WithMeta("k", basicnode.NewInt(vI64("meta_node"))))
	}
	var pol policy.Policy
	if vChoose("with_policy", 2) == 1 {
		p, err := policy.Construct(policy.GreaterThan(".a", literal.Int(c07Int("pol"))))
		if err != nil {
			vSkip("unreachable: policy")
		}
		pol = p
	}
	cmd := c07Cmd()
	var tkn *Token
	var err error
	switch vChoose("ctor", 3) {
	case 0:
		tkn, err = New(iss, aud, cmd, pol, opts...)
	case 1:
		tkn, err = New(iss, aud, cmd, pol, append(opts, WithSubject(aud))...)
	default:
		tkn, err = Root(iss, aud, cmd, pol, opts...)
	}
	if err != nil {
		vReach("refused")
		return
	}
	vReach("constructed")
	_, err = tkn.toIPLD(c07Key{})
	vAssert(err == nil && c07Captured != nil, "a delegation accepted by a constructor cannot be sealed")
	if err != nil || c07Captured == nil {
		return
	}
	back, err := tokenFromModel(*c07Captured)
	vAssert(err == nil, "a delegation accepted by a constructor is rejected when unsealed")
	if err != nil {
		return
	}
	vReach("round-tripped")
	vAssert(back.Issuer() == tkn.Issuer() && back.Audience() == tkn.Audience() && back.Subject() == tkn.Subject(), "a principal changes across seal/unseal")
	vAssert(vEqStr(back.Command().String(), tkn.Command().String()), "the command changes across seal/unseal")
	vAssert(vEqBytes(back.Nonce(), tkn.Nonce()), "the nonce changes across seal/unseal")
	vAssert(c07SameTime(back.NotBefore(), tkn.NotBefore()), "the not-before time changes across seal/unseal")
	vAssert(c07SameTime(back.Expiration(), tkn.Expiration()), "the expiration changes across seal/unseal")
	vAssert(back.Meta().Equals(tkn.Meta()), "the metadata changes across seal/unseal")
	vAssert(len(back.Policy()) == len(tkn.Policy()), "the policy changes across seal/unseal")
	if len(back.Policy()) == len(tkn.Policy()) && len(tkn.Policy()) > 0 {
		n1, e1 := back.Policy().ToIPLD()
		n2, e2 := tkn.Policy().ToIPLD()
		vAssert(e1 == nil && e2 == nil && datamodel.DeepEqual(n1, n2), "the policy changes across seal/unseal")
	}
}

func c07Int(tag string) int64 {
	v := vI64(tag)
	vAssume(v <= 1<<53-1)
	vAssume(v >= -(1<<53 - 1))
	return v
}


// VerifC07Issuers: a token issued by a key of every algorithm and size the
// did package produces (identifier built as FromPubKey builds it) is rebuilt
// with the same issuer: what can issue can be read back.
func VerifC07Issuers() {
	c07Install()
	c07Now = vClockSec()
	iss := did.VerifDIDOfSize(vChoose("issuer", 8))
	tkn, err := New(iss, did.MustParse(c10DidB), command.Top(), nil)
	vAssert(err == nil, "the constructor refuses an issuer of a generatable key type")
	if err != nil {
		return
	}
	_, err = tkn.toIPLD(c07Key{})
	vAssert(err == nil && c07Captured != nil, "a token of a generatable key type cannot be sealed")
	if err != nil || c07Captured == nil {
		return
	}
	back, err := tokenFromModel(*c07Captured)
	vReach("unsealed")
	vAssert(err == nil, "a token issued by a generatable key type is rejected when unsealed")
	if err == nil {
		vAssert(back.Issuer() == iss, "the issuer changes across seal/unseal")
	}
}
