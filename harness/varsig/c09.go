//go:build verif

package varsig

// VerifC09Varsig: decoding any header returns a key type or an error.
func VerifC09Varsig() {
	n := vChoose("len", vParam("N")+1)
	h := vBytes("h", n)
	kt, err := Decode(h)
	if err != nil {
		vReach("unknown")
		return
	}
	vReach("known")
	back, err := Encode(kt)
	vAssert(err == nil, "a decoded header's key type cannot be encoded")
	vAssert(vEqBytes(back, h), "header -> key type -> header is not the identity")
}
